/*
nifly
C++ NIF library for the Gamebryo/NetImmerse File Format
See the included GPLv3 LICENSE file
*/

#pragma once

#include "BasicTypes.hpp"
#include "Keys.hpp"
#include "VertexData.hpp"
#include "half.hpp"

namespace nifly {
class NiExtraData : public NiCloneableStreamable<NiExtraData, NiObject> {
public:
	NiStringRef name;

	static constexpr const char* BlockName = "NiExtraData";
	const char* GetBlockName() override { return BlockName; }

	void Sync(NiStreamReversible& stream);
	void GetStringRefs(std::vector<NiStringRef*>& refs) override;
};

class NiBinaryExtraData : public NiCloneableStreamable<NiBinaryExtraData, NiExtraData> {
public:
	NiVector<uint8_t> data;

	static constexpr const char* BlockName = "NiBinaryExtraData";
	const char* GetBlockName() override { return BlockName; }

	void Sync(NiStreamReversible& stream);
};

class NiFloatExtraData : public NiCloneableStreamable<NiFloatExtraData, NiExtraData> {
public:
	float floatData = 0.0f;

	static constexpr const char* BlockName = "NiFloatExtraData";
	const char* GetBlockName() override { return BlockName; }

	void Sync(NiStreamReversible& stream);
};

class NiFloatsExtraData : public NiCloneableStreamable<NiFloatsExtraData, NiExtraData> {
public:
	NiVector<float> floatsData;

	static constexpr const char* BlockName = "NiFloatsExtraData";
	const char* GetBlockName() override { return BlockName; }

	void Sync(NiStreamReversible& stream);
};

class NiStringExtraData : public NiCloneableStreamable<NiStringExtraData, NiExtraData> {
public:
	NiStringRef stringData;

	static constexpr const char* BlockName = "NiStringExtraData";
	const char* GetBlockName() override { return BlockName; }

	void Sync(NiStreamReversible& stream);
	void GetStringRefs(std::vector<NiStringRef*>& refs) override;
};

class NiStringsExtraData : public NiCloneableStreamable<NiStringsExtraData, NiExtraData> {
public:
	NiStringVector<> stringsData;

	static constexpr const char* BlockName = "NiStringsExtraData";
	const char* GetBlockName() override { return BlockName; }

	void Sync(NiStreamReversible& stream);
};

class NiBooleanExtraData : public NiCloneableStreamable<NiBooleanExtraData, NiExtraData> {
public:
	bool booleanData = false;

	static constexpr const char* BlockName = "NiBooleanExtraData";
	const char* GetBlockName() override { return BlockName; }

	void Sync(NiStreamReversible& stream);
};

class NiIntegerExtraData : public NiCloneableStreamable<NiIntegerExtraData, NiExtraData> {
public:
	uint32_t integerData = 0;

	static constexpr const char* BlockName = "NiIntegerExtraData";
	const char* GetBlockName() override { return BlockName; }

	void Sync(NiStreamReversible& stream);
};

class NiIntegersExtraData : public NiCloneableStreamable<NiIntegersExtraData, NiExtraData> {
public:
	NiVector<uint32_t> integersData;

	static constexpr const char* BlockName = "NiIntegersExtraData";
	const char* GetBlockName() override { return BlockName; }

	void Sync(NiStreamReversible& stream);
};

class NiVectorExtraData : public NiCloneableStreamable<NiVectorExtraData, NiExtraData> {
public:
	Vector4 vectorData;

	static constexpr const char* BlockName = "NiVectorExtraData";
	const char* GetBlockName() override { return BlockName; }

	void Sync(NiStreamReversible& stream);
};

class NiColorExtraData : public NiCloneableStreamable<NiColorExtraData, NiExtraData> {
public:
	Color4 colorData;

	static constexpr const char* BlockName = "NiColorExtraData";
	const char* GetBlockName() override { return BlockName; }

	void Sync(NiStreamReversible& stream);
};

enum BSXFlagsEnum : uint32_t {
	BSX_ANIMATED = 1 << 0,
	BSX_HAVOK = 1 << 1,
	BSX_RAGDOLL = 1 << 2,
	BSX_COMPLEX = 1 << 3,
	BSX_ADDON = 1 << 4,
	BSX_EDITOR_MARKER = 1 << 5,
	BSX_DYNAMIC = 1 << 6,
	BSX_ARTICULATED = 1 << 7,
	BSX_NEEDS_TRANSFORM_UPDATES = 1 << 8,
	BSX_EXTERNAL_EMITTANCE = 1 << 9
};

class BSXFlags : public NiCloneable<BSXFlags, NiIntegerExtraData> {
public:
	static constexpr const char* BlockName = "BSXFlags";
	const char* GetBlockName() override { return BlockName; }
};

class BSWArray : public NiCloneableStreamable<BSWArray, NiExtraData> {
public:
	NiVector<uint32_t> data;

	static constexpr const char* BlockName = "BSWArray";
	const char* GetBlockName() override { return BlockName; }

	void Sync(NiStreamReversible& stream);
};

class BSPositionData : public NiCloneableStreamable<BSPositionData, NiExtraData> {
public:
	NiVector<half_float::half> data;

	static constexpr const char* BlockName = "BSPositionData";
	const char* GetBlockName() override { return BlockName; }

	void Sync(NiStreamReversible& stream);
};

class BSEyeCenterExtraData : public NiCloneableStreamable<BSEyeCenterExtraData, NiExtraData> {
public:
	NiVector<float> data;

	static constexpr const char* BlockName = "BSEyeCenterExtraData";
	const char* GetBlockName() override { return BlockName; }

	void Sync(NiStreamReversible& stream);
};

struct BSPackedGeomObject {
	uint32_t fileNameHash = 0;
	uint32_t dataOffset = 0;
};

struct BSPackedGeomDataCombined {
	float grayscaleToPaletteScale = 1.0f;
	Matrix3 rotation;
	Vector3 translation;
	float scale = 1.0f;
	BoundingSphere bounds;
};

struct BSPackedGeomData {
	uint32_t numVertices = 0;
	uint32_t lodLevels = 0;
	uint32_t triCountLod0 = 0;
	uint32_t triOffsetLod0 = 0;
	uint32_t triCountLod1 = 0;
	uint32_t triOffsetLod1 = 0;
	uint32_t triCountLod2 = 0;
	uint32_t triOffsetLod2 = 0;
	NiVector<BSPackedGeomDataCombined> combined;
	VertexDesc vertexDesc;
	std::vector<BSVertexData> vertData;
	std::vector<Triangle> triangles;

	void Sync(NiStreamReversible& stream);

	void SetVertices(const bool enable);
	bool HasVertices() const { return vertexDesc.HasFlag(VF_VERTEX); }

	void SetUVs(const bool enable);
	bool HasUVs() const { return vertexDesc.HasFlag(VF_UV); }

	void SetSecondUVs(const bool enable);
	bool HasSecondUVs() { return vertexDesc.HasFlag(VF_UV_2); }

	void SetNormals(const bool enable);
	bool HasNormals() const { return vertexDesc.HasFlag(VF_NORMAL); }

	void SetTangents(const bool enable);
	bool HasTangents() const { return vertexDesc.HasFlag(VF_TANGENT); }

	void SetVertexColors(const bool enable);
	bool HasVertexColors() const { return vertexDesc.HasFlag(VF_COLORS); }

	void SetSkinned(const bool enable);
	bool IsSkinned() const { return vertexDesc.HasFlag(VF_SKINNED); }

	void SetEyeData(const bool enable);
	bool HasEyeData() const { return vertexDesc.HasFlag(VF_EYEDATA); }

	void SetFullPrecision(const bool enable);
	bool IsFullPrecision() const { return vertexDesc.HasFlag(VF_FULLPREC); }
	bool CanChangePrecision() const { return (HasVertices()); }
};

class BSPackedCombinedSharedGeomDataExtra
	: public NiCloneableStreamable<BSPackedCombinedSharedGeomDataExtra, NiExtraData> {
public:
	VertexDesc vertexDesc;
	uint32_t numVertices = 0;
	uint32_t numTriangles = 0;
	uint32_t unkFlags1 = 0;
	uint32_t unkFlags2 = 0;
	uint32_t numData = 0;
	std::vector<BSPackedGeomObject> objects;
	std::vector<BSPackedGeomData> data;

	static constexpr const char* BlockName = "BSPackedCombinedSharedGeomDataExtra";
	const char* GetBlockName() override { return BlockName; }

	void Sync(NiStreamReversible& stream);
};

class BSInvMarker : public NiCloneableStreamable<BSInvMarker, NiExtraData> {
public:
	uint16_t rotationX = 4712;
	uint16_t rotationY = 6283;
	uint16_t rotationZ = 0;
	float zoom = 1.0f;

	static constexpr const char* BlockName = "BSInvMarker";
	const char* GetBlockName() override { return BlockName; }

	void Sync(NiStreamReversible& stream);
};

class FurniturePosition {
public:
	Vector3 offset;

	uint16_t orientation = 0; // User Version <= 11
	uint8_t posRef1 = 0;	  // User Version <= 11
	uint8_t posRef2 = 0;	  // User Version <= 11

	float heading = 0.0f;		// User Version >= 12
	uint16_t animationType = 0; // User Version >= 12
	uint16_t entryPoints = 0;	// User Version >= 12

	void Sync(NiStreamReversible& stream);
};

class BSFurnitureMarker : public NiCloneableStreamable<BSFurnitureMarker, NiExtraData> {
public:
	NiSyncVector<FurniturePosition> positions;

	static constexpr const char* BlockName = "BSFurnitureMarker";
	const char* GetBlockName() override { return BlockName; }

	void Sync(NiStreamReversible& stream);
};

class BSFurnitureMarkerNode : public NiCloneable<BSFurnitureMarkerNode, BSFurnitureMarker> {
public:
	static constexpr const char* BlockName = "BSFurnitureMarkerNode";
	const char* GetBlockName() override { return BlockName; }
};

class DecalVectorBlock {
public:
	NiVector<Vector3, uint16_t> points;
	NiVector<Vector3, uint16_t> normals;

	void Sync(NiStreamReversible&);
};

class BSDecalPlacementVectorExtraData
	: public NiCloneableStreamable<BSDecalPlacementVectorExtraData, NiFloatExtraData> {
public:
	NiSyncVector<DecalVectorBlock, uint16_t> decalVectorBlocks;

	static constexpr const char* BlockName = "BSDecalPlacementVectorExtraData";
	const char* GetBlockName() override { return BlockName; }

	void Sync(NiStreamReversible& stream);
};

class BSBehaviorGraphExtraData : public NiCloneableStreamable<BSBehaviorGraphExtraData, NiExtraData> {
public:
	NiStringRef behaviorGraphFile;
	bool controlsBaseSkel = false;

	static constexpr const char* BlockName = "BSBehaviorGraphExtraData";
	const char* GetBlockName() override { return BlockName; }

	void Sync(NiStreamReversible& stream);
	void GetStringRefs(std::vector<NiStringRef*>& refs) override;
};

class BSBound : public NiCloneableStreamable<BSBound, NiExtraData> {
public:
	Vector3 center;
	Vector3 halfExtents;

	static constexpr const char* BlockName = "BSBound";
	const char* GetBlockName() override { return BlockName; }

	void Sync(NiStreamReversible& stream);
};

class BoneLOD {
public:
	uint32_t distance = 0;
	NiStringRef boneName;

	void Sync(NiStreamReversible& stream);
	void GetStringRefs(std::vector<NiStringRef*>& refs);
};

class BSBoneLODExtraData : public NiCloneableStreamable<BSBoneLODExtraData, NiExtraData> {
public:
	NiSyncVector<BoneLOD> boneLODs;

	static constexpr const char* BlockName = "BSBoneLODExtraData";
	const char* GetBlockName() override { return BlockName; }

	void Sync(NiStreamReversible& stream);
	void GetStringRefs(std::vector<NiStringRef*>& refs) override;
};

class NiTextKeyExtraData : public NiCloneableStreamable<NiTextKeyExtraData, NiExtraData> {
public:
	NiSyncVector<NiTextKey> textKeys;

	static constexpr const char* BlockName = "NiTextKeyExtraData";
	const char* GetBlockName() override { return BlockName; }

	void Sync(NiStreamReversible& stream);
	void GetStringRefs(std::vector<NiStringRef*>& refs) override;
};

class BSDistantObjectLargeRefExtraData
	: public NiCloneableStreamable<BSDistantObjectLargeRefExtraData, NiExtraData> {
public:
	bool largeRef = true;

	static constexpr const char* BlockName = "BSDistantObjectLargeRefExtraData";
	const char* GetBlockName() override { return BlockName; }

	void Sync(NiStreamReversible& stream);
};

class BSDistantObjectExtraData
	: public NiCloneableStreamable<BSDistantObjectExtraData, NiExtraData> {
public:
	uint32_t distantObjectFlags = 0;

	static constexpr const char* BlockName = "BSDistantObjectExtraData";
	const char* GetBlockName() override { return BlockName; }

	void Sync(NiStreamReversible& stream);
};

class BSConnectPoint {
public:
	NiString root;
	NiString variableName;
	Quaternion rotation;
	Vector3 translation;
	float scale = 1.0f;

	void Sync(NiStreamReversible& stream);
};

class BSConnectPointParents : public NiCloneableStreamable<BSConnectPointParents, NiExtraData> {
public:
	NiSyncVector<BSConnectPoint> connectPoints;

	static constexpr const char* BlockName = "BSConnectPoint::Parents";
	const char* GetBlockName() override { return BlockName; }

	void Sync(NiStreamReversible& stream);
};

class BSConnectPointChildren : public NiCloneableStreamable<BSConnectPointChildren, NiExtraData> {
public:
	bool skinned = true;
	NiStringVector<> targets;

	static constexpr const char* BlockName = "BSConnectPoint::Children";
	const char* GetBlockName() override { return BlockName; }

	void Sync(NiStreamReversible& stream);
};

class BSExtraData : public NiCloneable<BSExtraData, NiObject> {};

class BSClothExtraData : public NiCloneableStreamable<BSClothExtraData, BSExtraData> {
public:
	NiVector<char> data;

	BSClothExtraData() {}
	BSClothExtraData(const uint32_t size);

	static constexpr const char* BlockName = "BSClothExtraData";
	const char* GetBlockName() override { return BlockName; }

	void Sync(NiStreamReversible& stream);

	bool ToHKX(const std::string& fileName);
	bool FromHKX(const std::string& fileName);
};

class BSCollisionQueryProxyExtraData : public NiCloneableStreamable<BSCollisionQueryProxyExtraData, BSExtraData> {
public:
	NiVector<char> data;

	static constexpr const char* BlockName = "BSCollisionQueryProxyExtraData";
	const char* GetBlockName() override { return BlockName; }

	void Sync(NiStreamReversible& stream);
};

class SkinAttach : public NiCloneableStreamable<SkinAttach, NiExtraData> {
public:
	NiStringVector<> bones;

	static constexpr const char* BlockName = "SkinAttach";
	const char* GetBlockName() override { return BlockName; }

	void Sync(NiStreamReversible& stream);
};

struct BoneTranslation {
	NiString bone;
	Vector3 trans;
};

class BoneTranslations : public NiCloneableStreamable<BoneTranslations, NiExtraData> {
public:
	uint32_t numTranslations = 0;
	std::vector<BoneTranslation> translations;

	static constexpr const char* BlockName = "BoneTranslations";
	const char* GetBlockName() override { return BlockName; }

	void Sync(NiStreamReversible& stream);
};
} // namespace nifly
