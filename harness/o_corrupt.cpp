// nifly_oracle corrupt: fault enumeration on block references (property C15).
//
//   scan    file=<name>                       -> every block-reference field of the raw-saved file
//                                                (byte offset, owner block, ref/ptr, value) + graph
//   graph   file=<name> at=<off>:<val>,...    -> load the patched bytes, dump the graph the sorter /
//                                                the traversals see (input of the Coq model)
//   battery file=<name> at=... [skip=...]     -> load + read-only queries + copy + save (raw and
//                                                default) + reload; one line of digests
//   sort    file=<name> at=...                -> load + PrettySortBlocks only (new order digest)
//   ntg     file=<name> at=... node=<id>      -> load + GetNodeTransformToGlobal of one node
//   synth* variants take  blocks=<spec>  (a model built through the API) instead of file/at.
//
// A per-case watchdog (alarm) turns a hang into exit status 124.
#include <algorithm>
#include <csignal>
#include <cstring>
#include <fstream>
#include <functional>
#include <set>
#include <sstream>
#include <unistd.h>
#define private public
#define protected public
#include "NifFile.hpp"
#include "Animation.hpp"
#include "ExtraData.hpp"
#include "Shaders.hpp"
#include "Skin.hpp"
#include "bhk.hpp"
#undef private
#undef protected
#include "oracle.hpp"

using namespace nifly;

namespace {

struct CField {
	size_t off = 0;
	int owner = -1;
	char kind = 'u';
	uint32_t val = 0;
};

struct CBase {
	int rc = 0;
	std::string err;
	std::string bytes;
	std::vector<CField> fields;
	std::set<size_t> offsets;
	uint32_t nblocks = 0;
};

struct CHook {
	size_t written = 0;
	NiRef* pending = nullptr;
	int owner = -1;
	std::vector<CField>* out = nullptr;
	std::map<NiRef*, char>* kinds = nullptr;
} g_h;

void c_on_ref(int mode, void* r) {
	if (mode == 1 && g_h.out)
		g_h.pending = static_cast<NiRef*>(r);
}

void c_on_transfer(int mode, char* p, std::streamsize n) {
	if (mode != 1 || !g_h.out)
		return;
	if (g_h.pending) {
		if (n == 4 && p) {
			CField f;
			f.off = g_h.written;
			f.owner = g_h.owner;
			auto it = g_h.kinds->find(g_h.pending);
			f.kind = it == g_h.kinds->end() ? 'u' : it->second;
			std::memcpy(&f.val, p, 4);
			g_h.out->push_back(f);
		}
		g_h.pending = nullptr;
	}
	g_h.written += static_cast<size_t>(n);
}

void c_watchdog(int) {
	const char msg[] = "\nWATCHDOG: case exceeded its time limit (hang)\n";
	ssize_t r = write(2, msg, sizeof(msg) - 1);
	(void) r;
	_exit(124);
}

std::string c_samples_dir() {
	const char* e = std::getenv("VERIF_SAMPLES");
	return e ? e : "/repo/tests/input";
}

std::string c_ref(uint32_t v) {
	return v == NIF_NPOS ? std::string("x") : std::to_string(v);
}

std::string c_reflist(const std::vector<uint32_t>& v) {
	std::string s;
	for (size_t i = 0; i < v.size(); ++i) {
		if (i)
			s += ".";
		s += c_ref(v[i]);
	}
	return s;
}

uint32_t c_parse_ref(const std::string& s) {
	if (s == "x")
		return NIF_NPOS;
	return static_cast<uint32_t>(std::strtoull(s.c_str(), nullptr, 10));
}

// ---------------------------------------------------------------------------------------------
// models synthesised through the API

std::string c_save_raw(NifFile& nif) {
	std::ostringstream os;
	NifSaveOptions o;
	o.optimize = false;
	o.sortBlocks = false;
	nif.Save(os, o);
	return os.str();
}

// @skin_sse / @skin_le / @skin_fo4 / @skin_ob: a skinned shape made with CreateShapeFromData + CreateSkinning;
// @skin2_*: a second skinned shape with a single bone (so that "the skin data of the other shape" is an
// in-range block of the right type with FEWER bones)
bool c_synth_file(const std::string& name, std::string& out) {
	NifFile nif;
	NiVersion ver;
	std::string v = name.substr(name.find('_') == std::string::npos ? 0 : name.find('_') + 1);
	bool two = name.rfind("@skin2_", 0) == 0;
	if (!two && name.rfind("@skin_", 0) != 0)
		return false;
	if (v == "sse")
		ver = NiVersion::getSSE();
	else if (v == "le")
		ver = NiVersion::getSK();
	else if (v == "fo4")
		ver = NiVersion::getFO4();
	else if (v == "ob")
		ver = NiVersion::getOB();
	else
		return false;
	nif.Create(ver);
	std::vector<Vector3> verts = {{0, 0, 0}, {1, 0, 0}, {0, 1, 0}, {1, 1, 0}, {0, 0, 1}};
	std::vector<Triangle> tris = {Triangle(0, 1, 2), Triangle(1, 3, 2), Triangle(0, 2, 4)};
	std::vector<Vector2> uvs = {{0, 0}, {1, 0}, {0, 1}, {1, 1}, {0.5f, 0.5f}};
	std::vector<Vector3> norms(5, Vector3(0, 0, 1));
	MatTransform id;
	auto b0 = nif.AddNode("Bone0", id);
	auto b1 = nif.AddNode("Bone1", id, b0);
	auto b2 = nif.AddNode("Bone2", id, b1);
	auto shape = nif.CreateShapeFromData("Shape", &verts, &tris, &uvs, &norms);
	if (shape) {
		nif.CreateSkinning(shape);
		std::vector<int> ids = {static_cast<int>(nif.GetBlockID(b0)), static_cast<int>(nif.GetBlockID(b1)),
								static_cast<int>(nif.GetBlockID(b2))};
		nif.SetShapeBoneIDList(shape, ids);
		std::unordered_map<uint16_t, float> w0 = {{0, 1.0f}, {1, 0.5f}, {2, 0.5f}};
		std::unordered_map<uint16_t, float> w1 = {{1, 0.5f}, {2, 0.5f}, {3, 1.0f}};
		std::unordered_map<uint16_t, float> w2 = {{4, 1.0f}};
		nif.SetShapeBoneWeights("Shape", 0, w0);
		nif.SetShapeBoneWeights("Shape", 1, w1);
		nif.SetShapeBoneWeights("Shape", 2, w2);
		nif.UpdateSkinPartitions(shape);
	}
	if (two) {
		auto shape2 = nif.CreateShapeFromData("Shape2", &verts, &tris, &uvs, &norms);
		if (shape2) {
			nif.CreateSkinning(shape2);
			std::vector<int> ids = {static_cast<int>(nif.GetBlockID(b0))};
			nif.SetShapeBoneIDList(shape2, ids);
			std::unordered_map<uint16_t, float> w0 = {{0, 1.0f}, {1, 1.0f}, {2, 1.0f}, {3, 1.0f}, {4, 1.0f}};
			nif.SetShapeBoneWeights("Shape2", 0, w0);
			nif.UpdateSkinPartitions(shape2);
		}
	}
	out = c_save_raw(nif);
	return true;
}

bool c_source_bytes(const std::string& name, std::string& out) {
	if (!name.empty() && name[0] == '@')
		return c_synth_file(name, out);
	std::ifstream f(c_samples_dir() + "/" + name, std::ios::binary);
	if (!f)
		return false;
	std::ostringstream ss;
	ss << f.rdbuf();
	out = ss.str();
	return true;
}

// ---------------------------------------------------------------------------------------------
// the base file: the sample loaded and saved raw, with the position of every reference field

std::map<std::string, CBase> g_bases;

CBase& c_base(const std::string& name) {
	auto it = g_bases.find(name);
	if (it != g_bases.end())
		return it->second;
	CBase& b = g_bases[name];
	std::string src;
	if (!c_source_bytes(name, src)) {
		b.rc = -1;
		b.err = "cannot-read";
		return b;
	}
	NifFile nif;
	{
		std::istringstream is(src);
		b.rc = nif.Load(is);
	}
	if (b.rc != 0) {
		b.err = "load-failed";
		return b;
	}
	// which NiRef objects are child references / pointers of which block
	std::map<NiRef*, char> kinds;
	// the body of NifFile::Save(stream, {optimize=false, sortBlocks=false}), block by block, so that
	// every reference written is attributed to its owner (compared with the real Save below)
	std::ostringstream os;
	{
		NiOStream stream(&os, &nif.hdr);
		nif.FinalizeData();
		for (auto& blk : nif.blocks) {
			std::set<NiRef*> refs;
			blk->GetChildRefs(refs);
			for (auto r : refs)
				kinds[r] = 'r';
			std::set<NiPtr*> ptrs;
			blk->GetPtrs(ptrs);
			for (auto r : ptrs)
				kinds[r] = 'p';
		}
		g_h = CHook();
		g_h.out = &b.fields;
		g_h.kinds = &kinds;
		niVerifHooks().onRef = c_on_ref;
		niVerifHooks().onTransfer = c_on_transfer;
		g_h.owner = -1;
		nif.hdr.Put(stream);
		stream.InitBlockSize();
		std::vector<std::streamsize> blockSizes(nif.hdr.GetNumBlocks());
		for (uint32_t i = 0; i < nif.hdr.GetNumBlocks(); i++) {
			g_h.owner = static_cast<int>(i);
			nif.blocks[i]->Put(stream);
			blockSizes[i] = stream.GetBlockSize();
			stream.InitBlockSize();
		}
		g_h.owner = -2;
		uint32_t endPad = 1;
		stream << endPad;
		endPad = 0;
		stream << endPad;
		niVerifHooks().onRef = nullptr;
		niVerifHooks().onTransfer = nullptr;
		g_h.out = nullptr;
		std::streampos blockSizePos = nif.hdr.GetBlockSizeStreamPos();
		if (blockSizePos != std::streampos()) {
			os.seekp(blockSizePos);
			for (uint32_t i = 0; i < nif.hdr.GetNumBlocks(); i++)
				stream << static_cast<uint32_t>(blockSizes[i]);
			nif.hdr.ResetBlockSizeStreamPos();
		}
	}
	b.bytes = os.str();
	b.nblocks = nif.hdr.GetNumBlocks();
	{
		NifFile nif2;
		std::istringstream is(src);
		nif2.Load(is);
		std::string ref = c_save_raw(nif2);
		if (ref != b.bytes) {
			b.rc = -2;
			b.err = "harness-save-loop-differs-from-NifFile::Save";
			return b;
		}
	}
	for (auto& f : b.fields) {
		uint32_t v;
		if (f.off + 4 > b.bytes.size()) {
			b.rc = -3;
			b.err = "field-offset-outside-file";
			return b;
		}
		std::memcpy(&v, b.bytes.data() + f.off, 4);
		if (v != f.val) {
			b.rc = -3;
			b.err = "field-offset-does-not-hold-the-reference";
			return b;
		}
		b.offsets.insert(f.off);
	}
	return b;
}

// ---------------------------------------------------------------------------------------------
// graph dump (what the sorter and the traversals read), one token, no spaces

void c_field(std::ostringstream& os, const char* name, const std::string& v) {
	os << ";" << name << "-" << v;
}

template<typename Arr>
std::vector<uint32_t> c_arr(Arr& a) {
	std::vector<uint32_t> v;
	for (auto& r : a)
		v.push_back(r.index);
	return v;
}

std::string c_dump_block(NifFile& nif, NiObject* b) {
	std::ostringstream os;
	unsigned fl = 0;
	auto col = dynamic_cast<NiCollisionObject*>(b);
	auto node = dynamic_cast<NiNode*>(b);
	auto shape = dynamic_cast<NiShape*>(b);
	auto ctrl = dynamic_cast<NiTimeController*>(b);
	auto shader = dynamic_cast<NiShader*>(b);
	auto constraint = dynamic_cast<bhkConstraint*>(b);
	auto chain = dynamic_cast<bhkBallSocketConstraintChain*>(b);
	auto niskin = dynamic_cast<NiSkinInstance*>(b);
	auto bsskin = dynamic_cast<BSSkinInstance*>(b);
	auto seq = dynamic_cast<NiControllerSequence*>(b);
	auto notes = dynamic_cast<BSAnimNotes*>(b);
	auto net = dynamic_cast<NiObjectNET*>(b);
	auto av = dynamic_cast<NiAVObject*>(b);
	if (col) fl |= 1u << 0;
	if (node) fl |= 1u << 1;
	if (shape) fl |= 1u << 2;
	if (ctrl) fl |= 1u << 3;
	if (shader) fl |= 1u << 4;
	if (b->HasType<bhkRefObject>()) fl |= 1u << 5;
	if (constraint) fl |= 1u << 6;
	if (chain) fl |= 1u << 7;
	if (b->HasType<BSOrderedNode>()) fl |= 1u << 8;
	if (niskin) fl |= 1u << 9;
	if (bsskin) fl |= 1u << 10;
	if (seq) fl |= 1u << 11;
	if (notes) fl |= 1u << 12;
	if (b->HasType<NiInterpolator>()) fl |= 1u << 13;
	if (net) fl |= 1u << 14;
	if (av) fl |= 1u << 15;
	os << "ty-" << b->GetBlockName() << ";kf-" << fl;
	std::vector<uint32_t> ci;
	b->GetChildIndices(ci);
	c_field(os, "ci", c_reflist(ci));
	std::set<NiRef*> refs;
	b->GetChildRefs(refs);
	std::vector<uint32_t> cr;
	for (auto r : refs)
		cr.push_back(r->index);
	c_field(os, "cr", c_reflist(cr));
	std::set<NiPtr*> ptrs;
	b->GetPtrs(ptrs);
	std::vector<uint32_t> pt;
	for (auto r : ptrs)
		pt.push_back(r->index);
	c_field(os, "pt", c_reflist(pt));
	if (net) {
		c_field(os, "ex", c_reflist(c_arr(net->extraDataRefs)));
		c_field(os, "ct", c_ref(net->controllerRef.index));
	}
	if (av) {
		c_field(os, "pr", c_reflist(c_arr(av->propertyRefs)));
		c_field(os, "co", c_ref(av->collisionRef.index));
	}
	if (node) {
		std::vector<uint32_t> ch;
		node->childRefs.GetIndices(ch);
		c_field(os, "ch", c_reflist(ch));
		c_field(os, "ns", std::to_string(node->childRefs.GetSize()));
		// position of the child array inside GetChildIndices (after the NiAVObject part)
		std::vector<uint32_t> pre;
		node->NiAVObject::GetChildIndices(pre);
		c_field(os, "np", std::to_string(pre.size()));
		// GetNodeTransformToGlobal(name) starts from the first node block carrying that name
		c_field(os, "fn", c_ref(nif.GetBlockID(nif.FindBlockByName<NiNode>(node->name.get()))));
	}
	if (shape) {
		auto opt = [](const NiRef* r) { return r ? c_ref(r->index) : std::string("n"); };
		c_field(os, "da", opt(shape->DataRef()));
		c_field(os, "sk", opt(shape->SkinInstanceRef()));
		c_field(os, "sh", opt(shape->ShaderPropertyRef()));
		c_field(os, "al", opt(shape->AlphaPropertyRef()));
	}
	if (niskin) {
		c_field(os, "sd", c_ref(niskin->dataRef.index));
		c_field(os, "sp", c_ref(niskin->skinPartitionRef.index));
	}
	if (bsskin) {
		c_field(os, "sd", c_ref(bsskin->dataRef.index));
		c_field(os, "bn", std::to_string(bsskin->boneRefs.GetSize())); // bones of the shape
	}
	if (auto bd = dynamic_cast<BSSkinBoneData*>(b))
		c_field(os, "bx", std::to_string(bd->boneXforms.size())); // per-bone records it holds
	if (shader) {
		auto ts = shader->TextureSetRef();
		c_field(os, "ts", ts ? c_ref(ts->index) : std::string("n"));
	}
	if (constraint)
		c_field(os, "en", c_reflist(c_arr(constraint->entityRefs)));
	if (chain) {
		c_field(os, "ce", c_reflist(c_arr(chain->chainedEntityRefs)));
		c_field(os, "ea", c_ref(chain->entityARef.index));
		c_field(os, "eb", c_ref(chain->entityBRef.index));
	}
	if (seq) {
		std::string s;
		bool first = true;
		for (auto& cb : seq->controlledBlocks) {
			if (!first)
				s += ".";
			first = false;
			s += c_ref(cb.interpolatorRef.index) + "/" + c_ref(cb.controllerRef.index);
		}
		c_field(os, "cb", s);
		c_field(os, "tk", c_ref(seq->textKeyRef.index));
		c_field(os, "an", c_ref(seq->animNotesRef.index));
		c_field(os, "as", c_reflist(c_arr(seq->animNotesRefs)));
	}
	if (notes)
		c_field(os, "nr", c_reflist(c_arr(notes->animNoteRefs)));
	return os.str();
}

std::string c_dump_graph(NifFile& nif) {
	std::ostringstream os;
	auto& ver = nif.hdr.GetVersion();
	os << "n=" << nif.hdr.GetNumBlocks() << " ob=" << ((ver.IsOB() || ver.IsFO3()) ? 1 : 0) << " unk=" << (nif.hasUnknown ? 1 : 0)
	   << " root=" << c_ref(nif.GetBlockID(nif.GetRootNode())) << " g=";
	bool first = true;
	for (auto& b : nif.blocks) {
		if (!first)
			os << "+";
		first = false;
		os << c_dump_block(nif, b.get());
	}
	return os.str();
}

// ---------------------------------------------------------------------------------------------
// the battery

struct CHash {
	uint64_t h = 1469598103934665603ull;
	uint64_t count = 0;
	void add(uint64_t v) {
		// the same arithmetic is done by the model driver: (h * 31 + v + 1) mod 1000000007
		h = (h % 1000000007ull * 31ull + v % 1000000007ull + 1ull) % 1000000007ull;
		++count;
	}
	CHash() { h = 7; }
};

std::string c_queries(NifFile& nif, const std::set<uint32_t>& skip_ntg, bool skip_all_ntg, bool skip_bw, bool skip_bb) {
	std::ostringstream os;
	auto& hdr = nif.hdr;
	uint32_t n = hdr.GetNumBlocks();
	auto shapes = nif.GetShapes();
	auto names = nif.GetShapeNames();
	auto nodes = nif.GetNodes();
	auto root = nif.GetRootNode();
	std::vector<NiObject*> tree;
	nif.GetTree(tree);
	CHash th;
	for (auto o : tree)
		th.add(nif.GetBlockID(o));
	os << " shapes=" << shapes.size() << "/" << names.size() << " nodes=" << nodes.size() << " root=" << c_ref(nif.GetBlockID(root))
	   << " tree=" << tree.size() << "/" << th.h;
	// guarded lookups of every reference of every block, reference counts, parents
	uint64_t lkObj = 0, lkNode = 0, lkShape = 0, lkCol = 0, lkBhk = 0, nrefs = 0;
	uint64_t referenced = 0, referencedNoPtr = 0, refsum = 0, parents = 0, typeStrings = 0;
	CHash ph;
	for (uint32_t i = 0; i < n; ++i) {
		NiObject* b = hdr.GetBlock<NiObject>(i);
		if (!b)
			continue;
		std::set<NiRef*> refs;
		b->GetChildRefs(refs);
		std::set<NiPtr*> ptrs;
		b->GetPtrs(ptrs);
		for (auto r : ptrs)
			refs.insert(r);
		for (auto r : refs) {
			++nrefs;
			if (hdr.GetBlock<NiObject>(r)) ++lkObj;
			if (hdr.GetBlock<NiNode>(r)) ++lkNode;
			if (hdr.GetBlock<NiShape>(*r)) ++lkShape;
			if (hdr.GetBlock<NiCollisionObject>(r->index)) ++lkCol;
			if (hdr.GetBlock<bhkRefObject>(r->index)) ++lkBhk;
			(void) hdr.GetBlockTypeStringById(r->index);
			(void) hdr.GetBlockTypeIndex(r->index);
			(void) hdr.GetBlockSize(r->index);
		}
		std::vector<uint32_t> ci;
		b->GetChildIndices(ci);
		if (hdr.IsBlockReferenced(i, true)) ++referenced;
		if (hdr.IsBlockReferenced(i, false)) ++referencedNoPtr;
		refsum += static_cast<uint64_t>(hdr.GetBlockRefCount(i, true));
		if (!hdr.GetBlockTypeStringById(i).empty()) ++typeStrings;
		auto p = nif.GetParentNode(b);
		ph.add(p ? nif.GetBlockID(p) : 4294967295ull);
		if (p) ++parents;
		if (nif.GetBlockID(b) != i)
			os << " BADID";
	}
	// ids at and beyond the end
	for (uint32_t id : {n, n + 5, 0x7FFFFFFFu, NIF_NPOS}) {
		if (hdr.GetBlock<NiObject>(id)) os << " BADLOOKUP";
		if (!hdr.GetBlockTypeStringById(id).empty()) os << " BADTYPESTRING";
		(void) hdr.IsBlockReferenced(id);
		(void) hdr.GetBlockRefCount(id);
		(void) nif.GetNodeName(id);
	}
	os << " lk=" << nrefs << "," << lkObj << "," << lkNode << "," << lkShape << "," << lkCol << "," << lkBhk << " rf=" << referenced << ","
	   << referencedNoPtr << "," << refsum << " par=" << parents << "/" << ph.h << " ts=" << typeStrings;
	// nodes
	uint64_t ntp = 0, ntg = 0, kids = 0;
	for (auto node : nodes) {
		uint32_t id = nif.GetBlockID(node);
		(void) nif.GetNodeName(id); // ("_unnamed_" for an empty name)
		std::string nm = node->name.get();
		MatTransform t;
		if (nif.GetNodeTransformToParent(nm, t)) ++ntp;
		kids += nif.GetChildren<NiNode>(node, true).size();
		kids += nif.GetChildren<NiShape>(node, false).size();
		(void) nif.GetChildren<NiExtraData>(node, true);
		(void) nif.CanDeleteNode(nm);
		(void) NifFile::CanDeleteNode(node);
	}
	kids += nif.GetChildren<NiNode>(nullptr, false).size();
	if (!skip_all_ntg) {
		// GetNodeTransformToGlobal works by NAME: it walks up from the FIRST node block of that name
		std::set<std::string> done;
		for (auto node : nodes) {
			std::string nm = node->name.get();
			if (done.count(nm))
				continue;
			done.insert(nm);
			auto first = nif.FindBlockByName<NiNode>(nm);
			if (first && skip_ntg.count(nif.GetBlockID(first)))
				continue;
			MatTransform t;
			if (nif.GetNodeTransformToGlobal(nm, t)) ++ntg;
		}
	}
	os << " nd=" << ntp << "," << ntg << "," << kids;
	Vector3 rt;
	nif.GetRootTranslation(rt);
	(void) nif.IsSSECompatible();
	(void) nif.GetTriangleLimit();
	// shapes
	uint64_t sh = 0, bones = 0, verts = 0, tris = 0, tex = 0, xf = 0;
	for (auto s : shapes) {
		if (nif.GetShader(s)) ++sh;
		if (nif.GetMaterialProperty(s)) ++sh;
		if (nif.GetStencilProperty(s)) ++sh;
		if (nif.GetTexturingProperty(s)) ++sh;
		if (nif.GetGeometryData(s)) ++sh;
		if (nif.GetAlphaProperty(s)) ++sh;
		(void) nif.IsSSECompatible(s);
		tex += nif.GetTexturePathRefs(s).size();
		(void) nif.GetExternalGeometryPathRefs(s);
		for (uint32_t slot = 0; slot < 10; ++slot) {
			std::string f;
			if (nif.GetTextureSlot(s, f, slot)) ++tex;
		}
		std::vector<std::string> bl;
		nif.GetShapeBoneList(s, bl);
		std::vector<int> bid;
		nif.GetShapeBoneIDList(s, bid);
		bones += bl.size() + bid.size();
		MatTransform t;
		// CalcShapeTransformGlobalToSkin calls GetNodeTransformToGlobal for the bones: skipped together with it
		if (skip_ntg.empty() && !skip_all_ntg && nif.CalcShapeTransformGlobalToSkin(s, t)) ++xf;
		if (nif.GetShapeTransformGlobalToSkin(s, t)) ++xf;
		// bone indices a caller can obtain from the model itself (the id list has one entry per bone reference)
		size_t nb = std::max(bl.size(), bid.size());
		for (uint32_t bi = 0; bi < nb; ++bi) {
			std::unordered_map<uint16_t, float> w;
			if (!skip_bw)
				bones += nif.GetShapeBoneWeights(s, bi, w);
			if (nif.GetShapeTransformSkinToBone(s, bi, t)) ++xf;
			if (nif.GetShapeBoneTransform(s, bi, t)) ++xf;
			BoundingSphere bs;
			if (!skip_bb && nif.GetShapeBoneBounds(s, bi, bs)) ++xf;
		}
		for (auto& bn : bl) {
			if (nif.GetShapeTransformSkinToBone(s, bn, t)) ++xf;
			if (nif.GetShapeBoneTransform(s, bn, t)) ++xf;
		}
		NifSegmentationInfo inf;
		std::vector<int> parts;
		(void) NifFile::GetShapeSegments(s, inf, parts);
		NiVector<BSDismemberSkinInstance::PartitionInfo> pinf;
		std::vector<int> tp;
		(void) nif.GetShapePartitions(s, pinf, tp);
		auto v = nif.GetVertsForShape(s);
		if (v) verts += v->size();
		auto nr = nif.GetNormalsForShape(s);
		if (nr) verts += nr->size();
		auto uv = nif.GetUvsForShape(s);
		if (uv) verts += uv->size();
		auto cl = nif.GetColorsForShape(s);
		if (cl) verts += cl->size();
		auto tg = nif.GetTangentsForShape(s);
		if (tg) verts += tg->size();
		auto bt = nif.GetBitangentsForShape(s);
		if (bt) verts += bt->size();
		auto ey = nif.GetEyeDataForShape(s);
		if (ey) verts += ey->size();
		std::vector<Vector3> ov;
		if (nif.GetVertsForShape(s, ov)) verts += ov.size();
		std::vector<Vector2> ouv;
		if (nif.GetUvsForShape(s, ouv)) verts += ouv.size();
		std::vector<Color4> oc;
		if (nif.GetColorsForShape(s, oc)) verts += oc.size();
		std::vector<Vector3> ot;
		if (nif.GetTangentsForShape(s, ot)) verts += ot.size();
		if (nif.GetBitangentsForShape(s, ot)) verts += ot.size();
		std::vector<float> oe;
		(void) NifFile::GetEyeDataForShape(s, oe);
		std::vector<Vector3> tt, tb;
		(void) nif.GetBinaryTangentData(s, &tt, &tb);
		std::vector<Triangle> tr;
		if (s->GetTriangles(tr)) tris += tr.size();
		verts += s->GetNumVertices();
		(void) s->IsSkinned();
		(void) s->GetBoneID(nif.hdr, "Bone0");
	}
	os << " sq=" << sh << "," << bones << "," << verts << "," << tris << "," << tex << "," << xf;
	return os.str();
}

std::string c_save_to(NifFile& nif, bool dflt, int& rc) {
	std::ostringstream os;
	NifSaveOptions o;
	if (!dflt) {
		o.optimize = false;
		o.sortBlocks = false;
	}
	rc = nif.Save(os, o);
	return os.str();
}

std::string c_reload(const std::string& bytes) {
	NifFile r;
	std::istringstream is(bytes);
	int rc = r.Load(is);
	std::ostringstream os;
	os << rc << "/" << (rc == 0 ? r.hdr.GetNumBlocks() : 0);
	return os.str();
}

// PrettySortBlocks on a copy; the new position of every old block, through the object addresses
std::string c_sort_only(NifFile& nif, std::string* graph_after) {
	NifFile cp(nif);
	std::vector<NiObject*> before;
	for (auto& b : cp.blocks)
		before.push_back(b.get());
	cp.PrettySortBlocks();
	std::map<NiObject*, uint32_t> pos;
	for (uint32_t i = 0; i < cp.blocks.size(); ++i)
		pos[cp.blocks[i].get()] = i;
	CHash h;
	for (auto o : before) {
		auto it = pos.find(o);
		h.add(it == pos.end() ? 4294967295ull : it->second);
	}
	// references after the re-mapping (SetBlockOrder's guards)
	CHash rh;
	for (auto b : before) {
		// (SortGraph rewrites a node's child array, so only the NiAVObject part of a node is compared)
		std::vector<uint32_t> ci;
		if (auto node = dynamic_cast<NiNode*>(b))
			node->NiAVObject::GetChildIndices(ci);
		else
			b->GetChildIndices(ci);
		for (auto v : ci)
			rh.add(v);
		std::set<NiPtr*> ptrs;
		b->GetPtrs(ptrs);
		uint64_t s = 0;
		for (auto p : ptrs)
			s += p->index;
		rh.add(s);
	}
	if (graph_after)
		*graph_after = c_dump_graph(cp);
	std::ostringstream os;
	os << before.size() << "/" << h.h << "/" << rh.h;
	return os.str();
}

bool c_has(const std::string& skip, const std::string& what) {
	for (auto& s : split(skip, ','))
		if (s == what)
			return true;
	return false;
}

std::string c_battery(NifFile& nif, const Case& c) {
	std::ostringstream os;
	std::string skip = c.get("skip");
	std::set<uint32_t> skip_ntg;
	for (auto& s : split(c.get("skipntg"), ','))
		skip_ntg.insert(static_cast<uint32_t>(std::strtoul(s.c_str(), nullptr, 10)));
	os << " n=" << nif.hdr.GetNumBlocks();
	os << c_queries(nif, skip_ntg, c_has(skip, "ntg"), c_has(skip, "bw"), c_has(skip, "bb"));
	// DeleteUnreferencedBlocks on a copy
	{
		NifFile cp(nif);
		uint32_t del = cp.DeleteUnreferencedBlocks();
		os << " du=" << del << "/" << cp.hdr.GetNumBlocks();
	}
	// copy, query the copy, save the copy raw
	{
		NifFile cp(nif);
		int rc = 0;
		std::string out = c_save_to(cp, false, rc);
		os << " copy=" << rc << "/" << out.size() << "/" << c_reload(out);
	}
	{
		NifFile cp;
		cp = nif;
		os << " assign=" << cp.hdr.GetNumBlocks();
	}
	// sort alone (on a copy), then the two saves of the model itself
	if (!c_has(skip, "sort"))
		os << " so=" << c_sort_only(nif, nullptr);
	{
		NifFile cp(nif);
		int rc = 0;
		std::string out = c_save_to(cp, false, rc);
		os << " raw=" << rc << "/" << out.size() << "/" << c_reload(out);
	}
	if (!c_has(skip, "sort")) {
		int rc = 0;
		std::string out = c_save_to(nif, true, rc);
		os << " dflt=" << rc << "/" << out.size() << "/" << c_reload(out);
	}
	else {
		// default save without the sorter: optimise only
		NifSaveOptions o;
		o.sortBlocks = false;
		std::ostringstream s;
		int rc = nif.Save(s, o);
		os << " opt=" << rc << "/" << s.str().size() << "/" << c_reload(s.str());
	}
	return os.str();
}

// ---------------------------------------------------------------------------------------------
// models built through the API from a block list (arbitrary reference values, no file involved):
//   blocks=<type>:<refs .-separated>+...      types:
//   N  NiNode            refs = collision, extra data..., then children after a '|' : N:c.e.e|k.k
//   C  bhkCollisionObject  body
//   B  bhkRigidBody        shape | constraints
//   L  bhkListShape        sub shapes
//   M  bhkMoppBvTreeShape  shape
//   S  bhkBoxShape         (leaf)
//   H  bhkLimitedHingeConstraint  entities
//   K  bhkBallSocketConstraintChain  chained entities | A.B
//   X  NiStringExtraData   (leaf)
//   T  BSTriShape          collision | skin.shader.alpha
void c_set(NiBlockRefArray<NiAVObject>& a, const std::vector<std::string>& v) {
	for (auto& s : v)
		a.AddBlockRef(c_parse_ref(s));
}

bool c_build_synth(NifFile& nif, const std::string& spec) {
	nif.Create(NiVersion::getSSE());
	nif.blocks.clear();
	nif.hdr.Clear();
	nif.hdr.SetVersion(NiVersion::getSSE());
	nif.hdr.SetBlockReference(&nif.blocks);
	int k = 0;
	for (auto& bs : split(spec, '+')) {
		auto parts = split(bs, ':');
		if (parts.empty())
			return false;
		std::string t = parts[0];
		std::vector<std::string> a, b;
		if (parts.size() > 1) {
			auto halves = split(parts[1], '|');
			if (!halves.empty())
				a = split(halves[0], '.');
			if (halves.size() > 1)
				b = split(halves[1], '.');
		}
		auto geta = [&](size_t i) { return i < a.size() ? c_parse_ref(a[i]) : NIF_NPOS; };
		std::string nm = "b" + std::to_string(k++);
		if (t == "N") {
			auto o = std::make_unique<NiNode>();
			o->name.get() = nm;
			o->collisionRef.index = geta(0);
			for (size_t i = 1; i < a.size(); ++i)
				o->extraDataRefs.AddBlockRef(c_parse_ref(a[i]));
			for (auto& s : b)
				o->childRefs.AddBlockRef(c_parse_ref(s));
			nif.hdr.AddBlock(std::move(o));
		}
		else if (t == "C") {
			auto o = std::make_unique<bhkCollisionObject>();
			o->bodyRef.index = geta(0);
			nif.hdr.AddBlock(std::move(o));
		}
		else if (t == "B") {
			auto o = std::make_unique<bhkRigidBody>();
			o->shapeRef.index = geta(0);
			for (auto& s : b)
				o->constraintRefs.AddBlockRef(c_parse_ref(s));
			nif.hdr.AddBlock(std::move(o));
		}
		else if (t == "L") {
			auto o = std::make_unique<bhkListShape>();
			for (auto& s : a)
				o->subShapeRefs.AddBlockRef(c_parse_ref(s));
			nif.hdr.AddBlock(std::move(o));
		}
		else if (t == "M") {
			auto o = std::make_unique<bhkMoppBvTreeShape>();
			o->shapeRef.index = geta(0);
			nif.hdr.AddBlock(std::move(o));
		}
		else if (t == "S") {
			nif.hdr.AddBlock(std::make_unique<bhkBoxShape>());
		}
		else if (t == "H") {
			auto o = std::make_unique<bhkLimitedHingeConstraint>();
			for (auto& s : a)
				o->entityRefs.AddBlockRef(c_parse_ref(s));
			nif.hdr.AddBlock(std::move(o));
		}
		else if (t == "K") {
			auto o = std::make_unique<bhkBallSocketConstraintChain>();
			for (auto& s : a)
				o->chainedEntityRefs.AddBlockRef(c_parse_ref(s));
			o->entityARef.index = b.size() > 0 ? c_parse_ref(b[0]) : NIF_NPOS;
			o->entityBRef.index = b.size() > 1 ? c_parse_ref(b[1]) : NIF_NPOS;
			nif.hdr.AddBlock(std::move(o));
		}
		else if (t == "X") {
			auto o = std::make_unique<NiStringExtraData>();
			o->name.get() = nm;
			nif.hdr.AddBlock(std::move(o));
		}
		else if (t == "T") {
			auto o = std::make_unique<BSTriShape>();
			o->name.get() = nm;
			o->collisionRef.index = geta(0);
			if (b.size() > 0) o->SkinInstanceRef()->index = c_parse_ref(b[0]);
			if (b.size() > 1) o->ShaderPropertyRef()->index = c_parse_ref(b[1]);
			if (b.size() > 2) o->AlphaPropertyRef()->index = c_parse_ref(b[2]);
			nif.hdr.AddBlock(std::move(o));
		}
		else
			return false;
	}
	nif.isValid = true;
	return true;
}

// ---------------------------------------------------------------------------------------------

bool c_load_case(const Case& c, NifFile& nif, std::string& err, int& rc) {
	if (!c.get("blocks").empty() || c.op.rfind("synth", 0) == 0) {
		rc = 0;
		if (!c_build_synth(nif, c.get("blocks"))) {
			err = "BADSPEC";
			return false;
		}
		return true;
	}
	CBase& b = c_base(c.get("file"));
	if (b.rc != 0) {
		err = "SCANFAIL:" + b.err;
		return false;
	}
	std::string bytes = b.bytes;
	for (auto& a : split(c.get("at"), ',')) {
		auto p = split(a, ':');
		if (p.size() != 2) {
			err = "BADSPEC";
			return false;
		}
		size_t off = std::strtoull(p[0].c_str(), nullptr, 10);
		uint32_t val = static_cast<uint32_t>(std::strtoull(p[1].c_str(), nullptr, 10));
		if (!b.offsets.count(off)) {
			err = "BADSPEC:not-a-reference-field";
			return false;
		}
		std::memcpy(&bytes[off], &val, 4); // little-endian host
	}
	std::istringstream is(bytes);
	rc = nif.Load(is);
	return true;
}

int oracle_corrupt(int, char**) {
	std::signal(SIGALRM, c_watchdog);
	std::string line;
	unsigned limit = 60;
	if (const char* e = std::getenv("VERIF_CASE_TIMEOUT"))
		limit = static_cast<unsigned>(std::atoi(e));
	while (std::getline(std::cin, line)) {
		if (line.empty())
			continue;
		Case c = parse_case(line);
		std::ostringstream os;
		os << "I=";
		if (c.op == "scan") {
			alarm(limit * 4);
			CBase& b = c_base(c.get("file"));
			if (b.rc != 0)
				os << "SCANFAIL:" << b.err << " rc=" << b.rc;
			else {
				os << "ok n=" << b.nblocks << " size=" << b.bytes.size() << " fields=";
				for (size_t i = 0; i < b.fields.size(); ++i) {
					auto& f = b.fields[i];
					os << (i ? ";" : "") << f.off << ":" << f.owner << ":" << f.kind << ":" << c_ref(f.val);
				}
				NifFile nif;
				std::istringstream is(b.bytes);
				int rc = nif.Load(is);
				os << " load=" << rc << " " << c_dump_graph(nif);
			}
		}
		else {
			alarm(limit);
			NifFile nif;
			std::string err;
			int rc = 0;
			if (!c_load_case(c, nif, err, rc))
				os << err;
			else if (rc != 0)
				os << "load=" << rc;
			else if (c.op == "graph" || c.op == "synthgraph")
				os << "load=0 " << c_dump_graph(nif);
			else if (c.op == "battery" || c.op == "synthbattery")
				os << "load=0" << c_battery(nif, c);
			else if (c.op == "sort" || c.op == "synthsort") {
				std::string after;
				std::string d = c_sort_only(nif, c.get("dump") == "1" ? &after : nullptr);
				os << "load=0 so=" << d;
				if (!after.empty())
					os << " after:" << after;
			}
			else if (c.op == "ntg" || c.op == "synthntg") {
				uint32_t id = static_cast<uint32_t>(c.geti("node"));
				auto node = nif.hdr.GetBlock<NiNode>(id);
				MatTransform t;
				alarm(std::min(limit, 2u)); // the walk itself takes microseconds; loading was done under the general limit
				bool ok = node ? nif.GetNodeTransformToGlobal(node->name.get(), t) : false;
				os << "load=0 ntg=" << (ok ? 1 : 0);
			}
			else
				os << "BADOP";
		}
		alarm(0);
		std::cout << os.str() << "\n" << std::flush;
	}
	niVerifHooks().onRef = nullptr;
	niVerifHooks().onTransfer = nullptr;
	return 0;
}

Family reg_corrupt("corrupt", oracle_corrupt);

} // namespace
