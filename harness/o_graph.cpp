// nifly_oracle graph: applies block-graph edit histories through NiHeader's public API to
// synthetic models (blocks of a test class with arbitrary ref / ptr slots) and to real sample
// files, and dumps the header tables and every reference after each operation.
#include <algorithm>
#include <fstream>
#include <functional>
#include <set>
#include <sstream>
#define private public
#define protected public
#include "NifFile.hpp"
#undef private
#undef protected
#include "oracle.hpp"
#include "graphdump.hpp"

using namespace nifly;

// A block with an arbitrary number of child-reference and pointer slots and a chosen type name.
class VBlock : public NiCloneable<VBlock, NiObject> {
public:
	std::string tname;
	std::vector<NiRef> refs;
	std::vector<NiRef> ptrs;
	const char* GetBlockName() override { return tname.c_str(); }
	void GetChildRefs(std::set<NiRef*>& r) override {
		for (auto& x : refs)
			r.insert(&x);
	}
	void GetChildIndices(std::vector<uint32_t>& ind) override {
		for (auto& x : refs)
			ind.push_back(x.index);
	}
	void GetPtrs(std::set<NiPtr*>& p) override {
		for (auto& x : ptrs)
			p.insert(&x);
	}
};

static uint32_t g_nblocks = 0; // current block count, for "%k" references inside block specs
static uint32_t parse_ref(const std::string& s) {
	if (!s.empty() && s[0] == '%')
		return g_nblocks ? static_cast<uint32_t>(std::stoul(s.substr(1)) % g_nblocks) : NIF_NPOS;
	return s == "x" ? NIF_NPOS : static_cast<uint32_t>(std::stoul(s));
}

// block syntax:  T<type>:<crefs .-separated>:<ptrs .-separated>
static std::unique_ptr<VBlock> parse_vblock(const std::string& s) {
	auto parts = split(s, ':');
	auto b = std::make_unique<VBlock>();
	b->tname = "V" + parts[0].substr(1);
	if (parts.size() > 1)
		for (auto& r : split(parts[1], '.'))
			b->refs.emplace_back().index = parse_ref(r);
	if (parts.size() > 2)
		for (auto& r : split(parts[2], '.'))
			b->ptrs.emplace_back().index = parse_ref(r);
	return b;
}

UidMap g_uids;

std::string dump_graph(NiHeader& hdr, std::vector<std::unique_ptr<NiObject>>& blocks) {
	std::ostringstream os;
	os << "n=" << hdr.GetNumBlocks() << " nt=" << hdr.numBlockTypes << " types=";
	for (size_t i = 0; i < hdr.blockTypes.size(); ++i)
		os << (i ? "," : "") << hdr.blockTypes[i].get();
	os << " tidx=" << str_list(hdr.blockTypeIndices) << " sizes=" << str_list(hdr.blockSizes) << " blocks=";
	for (size_t i = 0; i < blocks.size(); ++i) {
		if (i)
			os << "+";
		NiObject* b = blocks[i].get();
		if (!b) {
			os << "NULL";
			continue;
		}
		os << g_uids.get(b) << "," << b->GetBlockName() << ",";
		std::set<NiRef*> refs;
		b->GetChildRefs(refs);
		bool first = true;
		for (auto r : refs) {
			os << (first ? "" : ".") << (r->IsEmpty() ? std::string("x") : std::to_string(r->index));
			first = false;
		}
		os << ",";
		std::set<NiRef*> ptrs;
		b->GetPtrs(ptrs);
		first = true;
		for (auto r : ptrs) {
			os << (first ? "" : ".") << (r->IsEmpty() ? std::string("x") : std::to_string(r->index));
			first = false;
		}
	}
	return os.str();
}

// ops:  A<block> | D<id> | R<id>=<block> | O<a.b.c> | T<type>,<0|1> | P<root>
// "%k" denotes the id k mod numBlocks (NPOS when there is no block): lets a generator write long
// valid histories without tracking the block count
static uint32_t parse_id(NiHeader& hdr, const std::string& s) {
	if (!s.empty() && s[0] == '%') {
		uint32_t n = hdr.GetNumBlocks();
		return n ? static_cast<uint32_t>(std::stoul(s.substr(1)) % n) : NIF_NPOS;
	}
	return parse_ref(s);
}

// "g<seed>": Fisher-Yates permutation of 0..n-1 driven by a 31-bit LCG (same code in d_graph.ml)
static std::vector<uint32_t> gen_perm(uint32_t n, uint64_t x) {
	std::vector<uint32_t> p(n);
	for (uint32_t i = 0; i < n; ++i)
		p[i] = i;
	for (uint32_t i = n; i-- > 1;) {
		x = (x * 1103515245ULL + 12345ULL) % 2147483648ULL;
		uint32_t j = static_cast<uint32_t>(x % (i + 1));
		std::swap(p[i], p[j]);
	}
	return p;
}

// viaref=1 cases: DeleteBlock is called through its reference overload with a reference that lives INSIDE a
// surviving block (the way NifFile::DeleteShape does: hdr.DeleteBlock(*ref)), when some block refers to the victim
static bool g_viaRef = false;

static void apply_op(NiHeader& hdr, std::vector<std::unique_ptr<NiObject>>& blocks, const std::string& op, bool real) {
	char k = op[0];
	std::string a = op.substr(1);
	g_nblocks = hdr.GetNumBlocks();
	auto mk = [&](const std::string& spec) -> std::unique_ptr<NiObject> {
		if (!real)
			return parse_vblock(spec);
		// real files: a fresh NiNode whose first child slot is the block's first child reference
		auto v = parse_vblock(spec);
		auto n = std::make_unique<NiNode>();
		n->name.get() = "added";
		for (auto& r : v->refs)
			n->childRefs.AddBlockRef(r.index);
		return n;
	};
	if (k == 'A') {
		auto b = mk(a);
		g_uids.fresh(b.get());
		hdr.AddBlock(std::move(b));
	}
	else if (k == 'D') {
		uint32_t id = parse_id(hdr, a);
		NiRef* via = nullptr;
		if (g_viaRef && id != NIF_NPOS && id < hdr.GetNumBlocks())
			for (uint32_t i = 0; i < hdr.GetNumBlocks() && !via; ++i) {
				auto b = hdr.GetBlock<NiObject>(i);
				if (!b || i == id)
					continue;
				std::set<NiRef*> refs;
				b->GetChildRefs(refs);
				for (auto r : refs)
					if (r->index == id) {
						via = r;
						break;
					}
			}
		if (via)
			hdr.DeleteBlock(*via);
		else
			hdr.DeleteBlock(id);
	}
	else if (k == 'R') {
		auto p = a.find('=');
		uint32_t id = parse_id(hdr, a.substr(0, p));
		auto b = mk(a.substr(p + 1));
		// the replacement takes over the identity of the block it replaces
		if (id != NIF_NPOS && id < blocks.size())
			g_uids.inherit(b.get(), blocks[id].get());
		else
			g_uids.fresh(b.get());
		hdr.ReplaceBlock(id, std::move(b));
	}
	else if (k == 'O') {
		std::vector<uint32_t> order;
		if (!a.empty() && a[0] == 'g')
			order = gen_perm(hdr.GetNumBlocks(), std::stoull(a.substr(1)));
		else
			for (auto& s : split(a, '.'))
				order.push_back(parse_ref(s));
		hdr.SetBlockOrder(order);
	}
	else if (k == 'T') {
		auto p = a.find(',');
		std::string t = a.substr(0, p);
		if (!t.empty() && std::isdigit(static_cast<unsigned char>(t[0])))
			t = "V" + t;
		hdr.DeleteBlockByType(t, a.substr(p + 1) == "1");
	}
	else if (k == 'P')
		hdr.DeleteUnreferencedBlocks<NiObject>(parse_id(hdr, a));
	g_uids.gc(blocks);
}

static int oracle_graph(int, char**) {
	std::string line;
	const char* sdir = std::getenv("VERIF_SAMPLES");
	std::string samples = sdir ? sdir : "/repo/tests/input";
	while (std::getline(std::cin, line)) {
		if (line.empty())
			continue;
		Case c = parse_case(line);
		g_viaRef = c.geti("viaref") == 1;
		g_uids = UidMap();
		std::ostringstream out;
		if (c.op == "seq") {
			// synthetic model: header + block vector, version decides whether sizes are kept
			NiHeader hdr;
			std::vector<std::unique_ptr<NiObject>> blocks;
			hdr.SetVersion(c.geti("hs") ? NiVersion::getSSE() : NiVersion::getOB());
			if (!c.geti("hs"))
				hdr.version.SetFile(NiFileVersion::V20_0_0_5);
			hdr.SetBlockReference(&blocks);
			g_nblocks = 0;
			for (auto& bs : split(c.get("init"), '+')) {
				auto b = parse_vblock(bs);
				g_uids.fresh(b.get());
				hdr.AddBlock(std::move(b));
			}
			// recognisable sizes
			for (size_t i = 0; i < hdr.blockSizes.size(); ++i)
				hdr.blockSizes[i] = static_cast<uint32_t>(100 + i);
			out << dump_graph(hdr, blocks);
			for (auto& op : split(c.get("ops"), ';')) {
				apply_op(hdr, blocks, op, false);
				out << " | " << dump_graph(hdr, blocks);
			}
		}
		else if (c.op == "fileseq" || c.op == "filedump") {
			NifFile nif;
			std::ifstream f(samples + "/" + c.get("name"), std::ios::binary);
			int rc = nif.Load(f);
			if (rc != 0) {
				std::cout << "I=LOADFAIL" << rc << "\n";
				continue;
			}
			for (auto& b : nif.blocks)
				g_uids.fresh(b.get());
			out << dump_graph(nif.hdr, nif.blocks);
			if (c.op == "fileseq") {
				for (auto& op : split(c.get("ops"), ';')) {
					apply_op(nif.hdr, nif.blocks, op, true);
					out << " | " << dump_graph(nif.hdr, nif.blocks);
				}
				// NiGeometry caches a raw pointer to its data block; header-level deletions / replacements do not maintain
				// it (that dangling cache is C11's recorded finding, not this property's subject): a caller editing through
				// the header re-links the shapes, and so does the harness before the model is saved
				for (uint32_t i = 0; i < nif.hdr.GetNumBlocks(); ++i)
					if (auto shape = nif.hdr.GetBlock<NiShape>(i))
						if (shape->DataRef()) {
							auto data = nif.hdr.GetBlock<NiGeometryData>(shape->DataRef());
							// SetGeomData ignores a null pointer: a cache whose block is gone is cleared member by member
							if (auto a = dynamic_cast<NiTriShape*>(shape))
								a->shapeData = nullptr;
							if (auto a = dynamic_cast<NiTriStrips*>(shape))
								a->stripsData = nullptr;
							if (auto a = dynamic_cast<NiLines*>(shape))
								a->linesData = nullptr;
							if (auto a = dynamic_cast<NiScreenElements*>(shape))
								a->elemData = nullptr;
							if (auto a = dynamic_cast<BSLODTriShape*>(shape))
								a->shapeData = nullptr;
							if (data)
								shape->SetGeomData(data);
						}
				// save without sorting/pruning, reload, dump again (identities are positional now)
				std::stringstream ss;
				NifSaveOptions so;
				so.optimize = false;
				so.sortBlocks = false;
				int src = nif.Save(ss, so);
				out << " | SAVED rc=" << src << " " << dump_graph(nif.hdr, nif.blocks);
				NifFile re;
				ss.seekg(0);
				int lrc = re.Load(ss);
				g_uids = UidMap();
				for (auto& b : re.blocks)
					g_uids.fresh(b.get());
				out << " | RELOAD rc=" << lrc << " " << dump_graph(re.hdr, re.blocks);
			}
		}
		else if (c.op == "template") {
			// slot layout of a freshly constructed NiNode (what file-mode A/R operations insert)
			NiNode n;
			std::set<NiRef*> refs, ptrs;
			n.GetChildRefs(refs);
			n.GetPtrs(ptrs);
			out << "crefs=";
			bool first = true;
			for (auto r : refs) {
				out << (first ? "" : ".") << (r->IsEmpty() ? std::string("x") : std::to_string(r->index));
				first = false;
			}
			out << " ptrs=";
			first = true;
			for (auto r : ptrs) {
				out << (first ? "" : ".") << (r->IsEmpty() ? std::string("x") : std::to_string(r->index));
				first = false;
			}
		}
		else
			out << "?";
		std::cout << "I=" << out.str() << "\n";
	}
	return 0;
}

static Family reg("graph", oracle_graph);
