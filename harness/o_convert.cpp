// nifly_oracle convert (C12): LE <-> SE conversion (NifFile::OptimizeFor) on sample files and on
// models built through the API, with a JSON dump of every shape (geometry, skin, refs, partitions)
// and of the node hierarchy before the conversion, after it, after save + reload in the target
// version, after converting back, and after saving + reloading that. Also the name-clash probe
// for NifFile::RenameDuplicateShapes.
//
// cases
//   file path=<nif> opts=<hp,rp,cb,bsx,sf as 0/1 digits> [back=1]
//   gen ver=sk|sse seed=<n> opts=<5 digits> nodes=<name:parent;...> shapes=<name:parent:nv:nt:flags:nb;...>
//        flags: u uvs, n normals, c colours, w white colours, s skinned, m model-space shader, t strips (LE),
//               p LE partitions without vertex weights, q LE partitions without bones / bone indices,
//               d SE NiSkinData without weights, a alpha property, e string extra data, h BSDynamicTriShape (SE),
//               f triangles i,i+1,i+2 first (every vertex used: one dense partition), r / R LE partitions rewritten
//               with an unordered vertexMap (r: any order, R: first and last entry kept, the rest shuffled)
//   file ... perm=1|2: the same rewrite (1 = r, 2 = R) of every LE partition of the loaded file, then save + reload
//   rename nodes=<parent;parent..> kids=<node:kind:name;...>   (kind s = shape, n = node; names hex)
#include <algorithm>
#include <cstring>
#include <fstream>
#include <map>
#include <set>
#include <sstream>
#define private public
#define protected public
#include "NifFile.hpp"
#undef private
#undef protected
#include "oracle.hpp"

using namespace nifly;

namespace {

uint32_t cv_bits(float x) {
	uint32_t t;
	std::memcpy(&t, &x, 4);
	return t;
}

std::string cv_jstr(const std::string& s) {
	std::ostringstream os;
	os << '"';
	for (unsigned char ch : s) {
		if (ch == '"' || ch == '\\')
			os << '\\' << ch;
		else if (ch < 0x20 || ch >= 0x7f) {
			char buf[8];
			std::snprintf(buf, sizeof buf, "\\u%04x", ch);
			os << buf;
		}
		else
			os << ch;
	}
	os << '"';
	return os.str();
}

template<typename T>
std::string cv_jarr(const std::vector<T>& v) {
	std::ostringstream os;
	os << '[';
	for (size_t i = 0; i < v.size(); ++i)
		os << (i ? "," : "") << +v[i];
	os << ']';
	return os.str();
}

std::string cv_block_type(NiHeader& hdr, uint32_t idx) {
	auto b = hdr.GetBlock<NiObject>(idx);
	return b ? std::string(b->GetBlockName()) : std::string("-");
}

std::string cv_tris(const std::vector<Triangle>& t) {
	std::vector<uint32_t> f;
	for (auto& x : t) {
		f.push_back(x.p1);
		f.push_back(x.p2);
		f.push_back(x.p3);
	}
	return cv_jarr(f);
}

std::string cv_dump_shape(NifFile& nif, NiShape* shape) {
	auto& hdr = nif.GetHeader();
	std::ostringstream os;
	os << "{\"name\":" << cv_jstr(shape->name.get()) << ",\"type\":" << cv_jstr(shape->GetBlockName());
	auto parent = nif.GetParentNode(shape);
	os << ",\"parent\":" << (parent ? cv_jstr(parent->name.get()) : std::string("null"));
	os << ",\"pid\":" << (parent ? static_cast<long long>(nif.GetBlockID(parent)) : -1LL);
	os << ",\"nv\":" << shape->GetNumVertices() << ",\"nt\":" << shape->GetNumTriangles();
	os << ",\"flags\":" << shape->flags;
	{
		std::vector<Vector3> v;
		bool ok = nif.GetVertsForShape(shape, v);
		std::vector<uint32_t> f;
		for (auto& x : v) {
			f.push_back(cv_bits(x.x));
			f.push_back(cv_bits(x.y));
			f.push_back(cv_bits(x.z));
		}
		os << ",\"verts\":" << (ok ? cv_jarr(f) : std::string("null"));
	}
	{
		std::vector<Triangle> t;
		bool ok = shape->GetTriangles(t);
		os << ",\"tris_ok\":" << (ok ? 1 : 0) << ",\"tris\":" << cv_tris(t);
	}
	{
		std::vector<Vector2> v;
		bool ok = nif.GetUvsForShape(shape, v);
		std::vector<uint32_t> f;
		for (auto& x : v) {
			f.push_back(cv_bits(x.u));
			f.push_back(cv_bits(x.v));
		}
		os << ",\"uvs\":" << (ok ? cv_jarr(f) : std::string("null"));
	}
	{
		std::vector<Color4> v;
		bool ok = nif.GetColorsForShape(shape, v);
		std::vector<uint32_t> f;
		for (auto& x : v) {
			f.push_back(cv_bits(x.r));
			f.push_back(cv_bits(x.g));
			f.push_back(cv_bits(x.b));
			f.push_back(cv_bits(x.a));
		}
		os << ",\"cols\":" << (ok ? cv_jarr(f) : std::string("null"));
	}
	{
		auto p = nif.GetNormalsForShape(shape);
		std::vector<uint32_t> f;
		if (p)
			for (auto& x : *p) {
				f.push_back(cv_bits(x.x));
				f.push_back(cv_bits(x.y));
				f.push_back(cv_bits(x.z));
			}
		os << ",\"norms\":" << (p ? cv_jarr(f) : std::string("null"));
		os << ",\"has_tan\":" << (shape->HasTangents() ? 1 : 0);
	}
	{
		BoundingSphere b = shape->GetBounds();
		os << ",\"bounds\":[" << cv_bits(b.center.x) << "," << cv_bits(b.center.y) << "," << cv_bits(b.center.z) << "," << cv_bits(b.radius) << "]";
	}
	// skin: bone names and, per vertex, the (bone index, weight) pairs the public accessor reports
	os << ",\"skinned\":" << (shape->IsSkinned() ? 1 : 0);
	{
		std::vector<std::string> bones;
		nif.GetShapeBoneList(shape, bones);
		os << ",\"bones\":[";
		for (size_t i = 0; i < bones.size(); ++i)
			os << (i ? "," : "") << cv_jstr(bones[i]);
		os << "]";
		std::vector<std::vector<std::pair<uint32_t, uint32_t>>> vw(shape->GetNumVertices());
		auto skinInstW = hdr.GetBlock<NiSkinInstance>(shape->SkinInstanceRef());
		NiSkinData* sdW = skinInstW ? hdr.GetBlock(skinInstW->dataRef) : nullptr;
		for (uint32_t b = 0; b < bones.size(); ++b) {
			std::unordered_map<uint16_t, float> w;
			if (dynamic_cast<BSTriShape*>(shape))
				nif.GetShapeBoneWeights(shape, b, w);
			else if (sdW && b < sdW->numBones && b < sdW->bones.size()) {
				// same selection as NifFile::GetShapeBoneWeights (NifFile.cpp:2536-2539), whose emplace binds a
				// reference to a member of the pack(1) struct (known finding C15-ub-misaligned-skinweight-ref)
				for (auto& sw : sdW->bones[b].vertexWeights) {
					uint16_t idx = sw.index;
					float wt = sw.weight;
					if (wt >= 0.0001f)
						w.emplace(idx, wt);
				}
			}
			for (auto& kv : w)
				if (kv.first < vw.size())
					vw[kv.first].push_back({b, cv_bits(kv.second)});
				else
					vw.resize(kv.first + 1), vw[kv.first].push_back({b, cv_bits(kv.second)});
		}
		auto emit = [&](const char* key, std::vector<std::vector<std::pair<uint32_t, uint32_t>>>& tab) {
			os << ",\"" << key << "\":[";
			for (size_t v = 0; v < tab.size(); ++v) {
				std::sort(tab[v].begin(), tab[v].end());
				os << (v ? "," : "") << "[";
				for (size_t k = 0; k < tab[v].size(); ++k)
					os << (k ? "," : "") << "[" << tab[v][k].first << "," << tab[v][k].second << "]";
				os << "]";
			}
			os << "]";
		};
		emit("weights", vw);
		// the weights NiSkinData holds (second source in SE files, the only one in LE files)
		std::vector<std::vector<std::pair<uint32_t, uint32_t>>> sw(shape->GetNumVertices());
		if (sdW)
			for (uint32_t b = 0; b < sdW->bones.size(); ++b)
				for (auto& e : sdW->bones[b].vertexWeights) {
					uint16_t idx = e.index;
					float wt = e.weight;
					if (wt >= 0.0001f) {
						if (idx >= sw.size())
							sw.resize(idx + 1);
						sw[idx].push_back({b, cv_bits(wt)});
					}
				}
		emit("sdw", sw);
	}
	// references carried by the shape
	{
		NiShader* sh = nif.GetShader(shape);
		os << ",\"shader\":" << (sh ? cv_jstr(sh->GetBlockName()) : std::string("null"));
		if (auto ls = dynamic_cast<BSLightingShaderProperty*>(sh))
			os << ",\"sf1\":" << ls->shaderFlags1 << ",\"sf2\":" << ls->shaderFlags2 << ",\"stype\":" << ls->GetShaderType();
		else if (auto es = dynamic_cast<BSEffectShaderProperty*>(sh))
			os << ",\"sf1\":" << es->shaderFlags1 << ",\"sf2\":" << es->shaderFlags2 << ",\"stype\":-1";
		os << ",\"shader_ref\":" << cv_jstr(shape->ShaderPropertyRef() ? cv_block_type(hdr, shape->ShaderPropertyRef()->index) : "-");
		os << ",\"alpha_ref\":" << cv_jstr(shape->AlphaPropertyRef() ? cv_block_type(hdr, shape->AlphaPropertyRef()->index) : "-");
		os << ",\"skin_ref\":" << cv_jstr(shape->SkinInstanceRef() ? cv_block_type(hdr, shape->SkinInstanceRef()->index) : "-");
		os << ",\"ctrl_ref\":" << cv_jstr(cv_block_type(hdr, shape->controllerRef.index));
		os << ",\"coll_ref\":" << cv_jstr(cv_block_type(hdr, shape->collisionRef.index));
		os << ",\"props\":[";
		bool first = true;
		for (auto& p : shape->propertyRefs) {
			os << (first ? "" : ",") << cv_jstr(cv_block_type(hdr, p.index));
			first = false;
		}
		os << "],\"extra\":[";
		first = true;
		for (auto& e : shape->extraDataRefs) {
			auto ed = hdr.GetBlock<NiExtraData>(e);
			os << (first ? "" : ",") << cv_jstr(cv_block_type(hdr, e.index) + ":" + (ed ? ed->name.get() : std::string("?")));
			first = false;
		}
		os << "]";
		if (sh && sh->HasTextureSet()) {
			auto ts = hdr.GetBlock(sh->TextureSetRef());
			os << ",\"textures\":[";
			if (ts)
				for (size_t i = 0; i < ts->textures.size(); ++i)
					os << (i ? "," : "") << cv_jstr(ts->textures[i].get());
			os << "]";
		}
	}
	// skin partitions
	{
		auto skinInst = hdr.GetBlock<NiSkinInstance>(shape->SkinInstanceRef());
		NiSkinPartition* sp = skinInst ? hdr.GetBlock(skinInst->skinPartitionRef) : nullptr;
		NiSkinData* sd = skinInst ? hdr.GetBlock(skinInst->dataRef) : nullptr;
		if (sd) {
			size_t nw = 0;
			for (auto& b : sd->bones)
				nw += b.vertexWeights.size();
			os << ",\"sd_hasw\":" << (sd->hasVertWeights ? 1 : 0) << ",\"sd_nw\":" << nw << ",\"sd_nb\":" << sd->numBones;
		}
		if (sp) {
			os << ",\"mapped\":" << (sp->bMappedIndices ? 1 : 0) << ",\"parts\":[";
			for (size_t i = 0; i < sp->partitions.size(); ++i) {
				auto& p = sp->partitions[i];
				os << (i ? "," : "") << "{\"nv\":" << p.numVertices << ",\"nt\":" << p.numTriangles << ",\"nb\":" << p.numBones
				   << ",\"ns\":" << p.numStrips << ",\"hvm\":" << p.hasVertexMap << ",\"hvw\":" << p.hasVertexWeights << ",\"hf\":" << p.hasFaces
				   << ",\"hbi\":" << p.hasBoneIndices << ",\"bones\":" << cv_jarr(p.bones) << ",\"vmap\":" << cv_jarr(p.vertexMap)
				   << ",\"tris\":" << cv_tris(p.triangles) << ",\"true\":" << cv_tris(p.trueTriangles) << ",\"nw\":" << p.vertexWeights.size()
				   << ",\"nbi\":" << p.boneIndices.size() << "}";
			}
			os << "]";
			if (auto bsd = dynamic_cast<BSDismemberSkinInstance*>(skinInst)) {
				std::vector<uint32_t> ids;
				for (auto& pi : bsd->partitions)
					ids.push_back(pi.partID);
				os << ",\"dismember\":" << cv_jarr(ids);
			}
		}
	}
	os << "}";
	return os.str();
}

std::string cv_dump(NifFile& nif) {
	auto& hdr = nif.GetHeader();
	std::ostringstream os;
	auto& v = hdr.GetVersion();
	os << "{\"ver\":[" << static_cast<uint32_t>(v.File()) << "," << v.User() << "," << v.Stream() << "],\"nblocks\":" << hdr.GetNumBlocks();
	os << ",\"shapes\":[";
	bool first = true;
	for (auto s : nif.GetShapes()) {
		os << (first ? "" : ",") << cv_dump_shape(nif, s);
		first = false;
	}
	os << "],\"nodes\":[";
	first = true;
	for (auto n : nif.GetNodes()) {
		auto parent = nif.GetParentNode(n);
		os << (first ? "" : ",") << "{\"name\":" << cv_jstr(n->name.get()) << ",\"id\":" << nif.GetBlockID(n) << ",\"type\":" << cv_jstr(n->GetBlockName())
		   << ",\"parent\":" << (parent ? cv_jstr(parent->name.get()) : std::string("null")) << ",\"kids\":[";
		bool f2 = true;
		for (auto& c : n->childRefs) {
			auto o = hdr.GetBlock<NiAVObject>(c);
			const char* kind = !o ? "" : dynamic_cast<NiShape*>(o) ? "S:" : dynamic_cast<NiNode*>(o) ? "N:" : "O:";
			os << (f2 ? "" : ",") << (o ? cv_jstr(std::string(kind) + o->GetBlockName() + ":" + o->name.get()) : std::string("null"));
			f2 = false;
		}
		os << "]}";
		first = false;
	}
	os << "],\"types\":[";
	for (uint32_t i = 0; i < hdr.GetNumBlocks(); ++i)
		os << (i ? "," : "") << cv_jstr(cv_block_type(hdr, i));
	os << "]}";
	return os.str();
}

OptOptions cv_opts(const std::string& bits, bool toSSE) {
	OptOptions o;
	o.targetVersion = toSSE ? NiVersion::getSSE() : NiVersion::getSK();
	auto b = [&](size_t i, bool d) { return i < bits.size() ? bits[i] == '1' : d; };
	o.headParts = b(0, false);
	o.removeParallax = b(1, true);
	o.calcBounds = b(2, true);
	o.fixBSXFlags = b(3, true);
	o.fixShaderFlags = b(4, true);
	return o;
}

std::string cv_result(const OptResult& r) {
	std::ostringstream os;
	auto names = [&](const std::vector<std::string>& v) {
		std::ostringstream o2;
		o2 << "[";
		for (size_t i = 0; i < v.size(); ++i)
			o2 << (i ? "," : "") << cv_jstr(v[i]);
		o2 << "]";
		return o2.str();
	};
	os << "{\"mismatch\":" << r.versionMismatch << ",\"renamed\":" << r.dupesRenamed << ",\"vc_removed\":" << names(r.shapesVColorsRemoved)
	   << ",\"n_removed\":" << names(r.shapesNormalsRemoved) << ",\"triangulated\":" << names(r.shapesPartTriangulated)
	   << ",\"tan_added\":" << names(r.shapesTangentsAdded) << ",\"parallax\":" << names(r.shapesParallaxRemoved) << "}";
	return os.str();
}

// convert, save, reload, convert back, save, reload; one JSON object per stage
std::map<std::string, std::vector<Triangle>> g_genTris;	// strip shapes of the model being built: the triangles they encode

void cv_pipeline(std::unique_ptr<NifFile> nif, const std::string& optbits, bool back, std::ostream& out) {
	out << "{\"stages\":[";
	out << "{\"stage\":\"orig\",\"gen_tris\":{";
	{
		bool first = true;
		for (auto& kv : g_genTris) {
			out << (first ? "" : ",") << cv_jstr(kv.first) << ":" << cv_tris(kv.second);
			first = false;
		}
		g_genTris.clear();
	}
	out << "},\"d\":" << cv_dump(*nif) << "}";
	bool toSSE = nif->GetHeader().GetVersion().IsSK();
	for (int round = 0; round < (back ? 2 : 1); ++round) {
		OptOptions o = cv_opts(optbits, toSSE);
		OptResult r = nif->OptimizeFor(o);
		out << ",{\"stage\":\"conv" << round << "\",\"res\":" << cv_result(r) << ",\"d\":" << cv_dump(*nif) << "}";
		if (r.versionMismatch)
			break;
		std::stringstream ss(std::ios::in | std::ios::out | std::ios::binary);
		int rc = nif->Save(ss);
		auto re = std::make_unique<NifFile>();
		ss.seekg(0);
		int lrc = re->Load(ss);
		out << ",{\"stage\":\"reload" << round << "\",\"save_rc\":" << rc << ",\"load_rc\":" << lrc << ",\"bytes\":" << ss.str().size();
		if (lrc != 0) {
			out << "}";
			break;
		}
		out << ",\"d\":" << cv_dump(*re) << "}";
		nif = std::move(re);
		toSSE = !toSSE;
	}
	out << "]}";
}

struct CvRng {
	uint64_t s;
	uint32_t next() {
		s = s * 6364136223846793005ULL + 1442695040888963407ULL;
		return static_cast<uint32_t>(s >> 33);
	}
	uint32_t below(uint32_t n) { return n ? next() % n : 0; }
};

// Rewrite one partition so that it describes the same geometry with an unordered vertex map: position j of
// the new per-vertex arrays holds what position perm[j] held; mapped triangle / strip indices follow.
void cv_permute_partition(NiSkinPartition::PartitionBlock& p, CvRng& rng, int mode) {
	size_t n = p.vertexMap.size();
	if (n < 3)
		return;
	std::vector<size_t> perm(n);
	for (size_t i = 0; i < n; ++i)
		perm[i] = i;
	size_t lo = mode == 2 ? 1 : 0, hi = mode == 2 ? n - 1 : n;       // [lo, hi) is shuffled
	if (hi - lo < 2)
		return;
	for (size_t i = hi - 1; i > lo; --i)
		std::swap(perm[i], perm[lo + rng.below(static_cast<uint32_t>(i - lo + 1))]);
	bool moved = false;
	for (size_t i = 0; i < n; ++i)
		moved = moved || perm[i] != i;
	if (!moved)
		std::swap(perm[lo], perm[lo + 1]);
	std::vector<uint16_t> inv(n);
	for (size_t j = 0; j < n; ++j)
		inv[perm[j]] = static_cast<uint16_t>(j);
	auto pick = [&](auto& vec) {
		if (vec.size() != n)
			return;
		auto old = vec;
		for (size_t j = 0; j < n; ++j)
			vec[j] = old[perm[j]];
	};
	pick(p.vertexMap);
	pick(p.vertexWeights);
	pick(p.boneIndices);
	auto remap = [&](uint16_t i) { return i < n ? inv[i] : i; };
	for (auto& t : p.triangles)
		t = Triangle(remap(t.p1), remap(t.p2), remap(t.p3));
	for (auto& st : p.strips)
		for (auto& i : st)
			i = remap(i);
	p.trueTriangles.clear();
}

int cv_permute_all(NifFile& nif, CvRng& rng, int mode) {
	int count = 0;
	auto& hdr = nif.GetHeader();
	for (auto shape : nif.GetShapes()) {
		if (dynamic_cast<BSTriShape*>(shape))
			continue;
		auto skinInst = hdr.GetBlock<NiSkinInstance>(shape->SkinInstanceRef());
		NiSkinPartition* sp = skinInst ? hdr.GetBlock(skinInst->skinPartitionRef) : nullptr;
		if (!sp || !sp->bMappedIndices)
			continue;
		for (auto& p : sp->partitions) {
			cv_permute_partition(p, rng, mode);
			++count;
		}
		sp->triParts.clear();
	}
	return count;
}

std::unique_ptr<NifFile> cv_build(const Case& c) {
	bool sk = c.get("ver") == "sk";
	auto nif = std::make_unique<NifFile>();
	nif->Create(sk ? NiVersion::getSK() : NiVersion::getSSE());
	auto& hdr = nif->GetHeader();
	CvRng rng{static_cast<uint64_t>(c.geti("seed")) * 2654435761ULL + 12345};
	std::vector<NiNode*> nodes{nif->GetRootNode()};
	for (auto& ns : split(c.get("nodes"), ';')) {
		auto f = split(ns, ':');
		if (f.size() < 2)
			continue;
		size_t p = static_cast<size_t>(std::strtoul(f[1].c_str(), nullptr, 10));
		nodes.push_back(nif->AddNode(f[0], MatTransform(), nodes[p < nodes.size() ? p : 0]));
	}
	static const float wsets[][4] = {{1.0f, 0, 0, 0}, {0.5f, 0.5f, 0, 0}, {0.75f, 0.25f, 0, 0}, {0.5f, 0.25f, 0.25f, 0}, {0.25f, 0.25f, 0.25f, 0.25f}, {0.625f, 0.375f, 0, 0}};
	for (auto& ss : split(c.get("shapes"), ';')) {
		auto f = split(ss, ':');
		if (f.size() < 6)
			continue;
		std::string name = f[0];
		size_t par = static_cast<size_t>(std::strtoul(f[1].c_str(), nullptr, 10));
		uint32_t nv = static_cast<uint32_t>(std::strtoul(f[2].c_str(), nullptr, 10));
		uint32_t nt = static_cast<uint32_t>(std::strtoul(f[3].c_str(), nullptr, 10));
		std::string fl = f[4];
		uint32_t nb = static_cast<uint32_t>(std::strtoul(f[5].c_str(), nullptr, 10));
		auto has = [&](char ch) { return fl.find(ch) != std::string::npos; };
		std::vector<Vector3> verts(nv), norms(nv);
		std::vector<Vector2> uvs(nv);
		for (uint32_t i = 0; i < nv; ++i) {
			verts[i] = Vector3((static_cast<int>(rng.below(4096)) - 2048) / 16.0f, (static_cast<int>(rng.below(4096)) - 2048) / 16.0f, (static_cast<int>(rng.below(4096)) - 2048) / 16.0f);
			uvs[i] = Vector2(rng.below(1025) / 1024.0f, rng.below(1025) / 1024.0f);
			static const Vector3 axes[6] = {{1, 0, 0}, {-1, 0, 0}, {0, 1, 0}, {0, -1, 0}, {0, 0, 1}, {0, 0, -1}};
			norms[i] = axes[rng.below(6)];
		}
		std::vector<Triangle> tris;
		std::set<std::vector<uint16_t>> seen;
		if (has('f'))
			for (uint32_t i = 0; i + 2 < nv; ++i) {
				Triangle t(static_cast<uint16_t>(i), static_cast<uint16_t>(i + 1), static_cast<uint16_t>(i + 2));
				tris.push_back(t);
				t.rot();
				seen.insert({t.p1, t.p2, t.p3});
			}
		for (uint32_t i = 0; i < nt && nv >= 3; ++i) {
			uint16_t a = static_cast<uint16_t>(rng.below(nv)), b = static_cast<uint16_t>(rng.below(nv)), d = static_cast<uint16_t>(rng.below(nv));
			if (a == b || b == d || a == d)
				continue;
			Triangle t(a, b, d);
			t.rot();
			std::vector<uint16_t> key{t.p1, t.p2, t.p3};
			if (!seen.insert(key).second)
				continue;
			tris.push_back(Triangle(a, b, d));
		}
		NiShape* shape = nullptr;
		if (sk && (has('t') || has('T'))) {
			// NiTriStrips: every triangle becomes one strip of three points ('t'), or all triangles are stitched into ONE
			// strip ('T': c_prev, a, a between two triangles = five degenerate windows, so that every real window starts
			// at an even position). The generated triangles are the ground truth for the strip decoder.
			auto data = std::make_unique<NiTriStripsData>();
			data->Create(hdr.GetVersion(), &verts, nullptr, has('u') ? &uvs : nullptr, has('n') ? &norms : nullptr);
			{
				// shapes may share a name: the key is name#k for the k-th strip shape of that name
				int k = 0;
				while (g_genTris.count(name + "#" + std::to_string(k)))
					++k;
				g_genTris[name + "#" + std::to_string(k)] = tris;
			}
			if (has('T')) {
				std::vector<uint16_t> pts;
				for (auto& t : tris) {
					if (!pts.empty()) {
						pts.push_back(pts.back());
						pts.push_back(t.p1);
						pts.push_back(t.p1);
					}
					pts.push_back(t.p1);
					pts.push_back(t.p2);
					pts.push_back(t.p3);
				}
				if (!pts.empty()) {
					uint16_t len = static_cast<uint16_t>(pts.size());
					data->stripsInfo.stripLengths.push_back(len);
					data->stripsInfo.points.push_back(pts);
				}
			}
			else
			for (auto& t : tris) {
				uint16_t three = 3;
				data->stripsInfo.stripLengths.push_back(three);
				data->stripsInfo.points.push_back({t.p1, t.p2, t.p3});
			}
			data->stripsInfo.hasPoints = true;
			data->numTriangles = static_cast<uint16_t>(tris.size());
			auto strips = std::make_unique<NiTriStrips>();
			strips->name.get() = name;
			auto shader = std::make_unique<BSLightingShaderProperty>(hdr.GetVersion());
			auto texset = std::make_unique<BSShaderTextureSet>(hdr.GetVersion());
			shader->TextureSetRef()->index = hdr.AddBlock(std::move(texset));
			strips->ShaderPropertyRef()->index = hdr.AddBlock(std::move(shader));
			strips->SetGeomData(data.get());
			strips->DataRef()->index = hdr.AddBlock(std::move(data));
			shape = strips.get();
			uint32_t id = hdr.AddBlock(std::move(strips));
			nif->GetRootNode()->childRefs.AddBlockRef(id);
		}
		else
			shape = nif->CreateShapeFromData(name, &verts, &tris, has('u') ? &uvs : nullptr, has('n') ? &norms : nullptr);
		if (!shape)
			continue;
		if (!sk && has('h')) {
			// BSDynamicTriShape in place of the BSTriShape
			auto dyn = std::make_unique<BSDynamicTriShape>();
			dyn->Create(hdr.GetVersion(), &verts, &tris, has('u') ? &uvs : nullptr, has('n') ? &norms : nullptr);
			dyn->SetSkinned(false);
			dyn->name.get() = name;
			dyn->ShaderPropertyRef()->index = shape->ShaderPropertyRef()->index;
			auto dp = dyn.get();
			hdr.ReplaceBlock(nif->GetBlockID(shape), std::move(dyn));
			shape = dp;
		}
		if (par > 0 && par < nodes.size())
			nif->SetParentNode(shape, nodes[par]);
		if (has('c') || has('w')) {
			std::vector<Color4> cols(nv);
			for (uint32_t i = 0; i < nv; ++i)
				cols[i] = has('w') ? Color4(1, 1, 1, 1) : Color4(rng.below(256) / 255.0f, rng.below(256) / 255.0f, rng.below(256) / 255.0f, rng.below(256) / 255.0f);
			nif->SetColorsForShape(shape, cols);
			if (auto ls = dynamic_cast<BSLightingShaderProperty*>(nif->GetShader(shape))) {
				ls->SetVertexColors(true);
				ls->SetVertexAlpha(true);
			}
		}
		if (has('m'))
			if (auto ls = dynamic_cast<BSLightingShaderProperty*>(nif->GetShader(shape)))
				ls->shaderFlags1 |= SLSF1_MODEL_SPACE_NORMALS;
		if (has('a')) {
			auto alpha = std::make_unique<NiAlphaProperty>();
			shape->AlphaPropertyRef()->index = hdr.AddBlock(std::move(alpha));
		}
		if (has('e')) {
			auto sd = std::make_unique<NiStringExtraData>();
			sd->name.get() = "Prn";
			sd->stringData.get() = "WEAPON";
			nif->AssignExtraData(shape, std::move(sd));
		}
		if (has('s') && nb > 0 && nv > 0) {
			std::vector<int> boneIds;
			for (uint32_t b = 0; b < nb; ++b) {
				std::string bn = name + "_Bone" + std::to_string(b);
				auto node = nif->AddNode(bn, MatTransform());
				boneIds.push_back(static_cast<int>(nif->GetBlockID(node)));
			}
			nif->CreateSkinning(shape);
			nif->SetShapeBoneIDList(shape, boneIds);
			// per vertex: up to four distinct bones with dyadic weights
			std::vector<std::unordered_map<uint16_t, float>> perBone(nb);
			auto bs = dynamic_cast<BSTriShape*>(shape);
			for (uint32_t v = 0; v < nv; ++v) {
				const float* ws = wsets[rng.below(6)];
				std::vector<uint8_t> ids;
				std::vector<float> w;
				std::set<uint32_t> used;
				for (int k = 0; k < 4 && ws[k] > 0; ++k) {
					uint32_t b = rng.below(nb);
					if (!used.insert(b).second) {
						// fold the weight into the previous entry to keep the sum at one
						w.back() += ws[k];
						continue;
					}
					ids.push_back(static_cast<uint8_t>(b));
					w.push_back(ws[k]);
				}
				for (size_t k = 0; k < ids.size(); ++k)
					perBone[ids[k]][static_cast<uint16_t>(v)] = w[k];
				if (bs) {
					auto& vx = bs->vertData[v];
					std::memset(vx.weights, 0, sizeof vx.weights);
					std::memset(vx.weightBones, 0, sizeof vx.weightBones);
					for (size_t k = 0; k < ids.size(); ++k) {
						vx.weightBones[k] = ids[k];
						vx.weights[k] = w[k];
					}
				}
			}
			auto skinInst = hdr.GetBlock<NiSkinInstance>(shape->SkinInstanceRef());
			NiSkinData* sd = skinInst ? hdr.GetBlock(skinInst->dataRef) : nullptr;
			if (sd && !(has('d') && !sk)) {
				sd->hasVertWeights = true;
				for (uint32_t b = 0; b < nb && b < sd->bones.size(); ++b) {
					sd->bones[b].vertexWeights.clear();
					std::vector<std::pair<uint16_t, float>> sorted(perBone[b].begin(), perBone[b].end());
					std::sort(sorted.begin(), sorted.end());
					for (auto& kv : sorted)
						sd->bones[b].vertexWeights.emplace_back(SkinWeight(kv.first, kv.second));
					sd->bones[b].numVertices = static_cast<uint16_t>(sd->bones[b].vertexWeights.size());
				}
			}
			nif->UpdateSkinPartitions(shape);
			// '3': the triangles are assigned to three body-part partitions (round robin) through the API
			if (has('3') && sk) {
				NiVector<BSDismemberSkinInstance::PartitionInfo> pinf;
				for (uint16_t id : {32, 34, 38}) {
					BSDismemberSkinInstance::PartitionInfo pi;
					pi.flags = PF_EDITOR_VISIBLE;
					pi.partID = id;
					pinf.push_back(pi);
				}
				std::vector<Triangle> st;
				shape->GetTriangles(st);
				std::vector<int> tp(st.size());
				for (size_t i = 0; i < tp.size(); ++i)
					tp[i] = static_cast<int>(i % 3);
				nif->SetShapePartitions(shape, pinf, tp);
				nif->UpdateSkinPartitions(shape);
				skinInst = hdr.GetBlock<NiSkinInstance>(shape->SkinInstanceRef());
			}
			if (sd && has('d') && !sk) {
				sd->hasVertWeights = false;
				for (auto& b : sd->bones) {
					b.vertexWeights.clear();
					b.numVertices = 0;
				}
			}
			NiSkinPartition* sp = skinInst ? hdr.GetBlock(skinInst->skinPartitionRef) : nullptr;
			if (sp && sk && (has('r') || has('R')) && sp->bMappedIndices) {
				for (auto& p : sp->partitions)
					cv_permute_partition(p, rng, has('R') ? 2 : 1);
				sp->triParts.clear();
			}
			// 'S': every LE partition stores its faces as strips (one three-point strip per triangle) instead of a list
			if (sp && sk && has('S') && sp->bMappedIndices) {
				for (auto& p : sp->partitions) {
					if (p.triangles.empty())
						continue;
					p.strips.clear();
					p.stripLengths.clear();
					for (auto& t : p.triangles) {
						p.strips.push_back({t.p1, t.p2, t.p3});
						p.stripLengths.push_back(3);
					}
					p.numStrips = static_cast<uint16_t>(p.strips.size());
					p.triangles.clear();
					p.trueTriangles.clear();
					p.hasFaces = true;
				}
				sp->triParts.clear();
			}
			if (sp && sk && has('p'))
				for (auto& p : sp->partitions) {
					p.hasVertexWeights = false;
					p.vertexWeights.clear();
				}
			if (sp && sk && has('q'))
				for (auto& p : sp->partitions) {
					p.hasBoneIndices = false;
					p.boneIndices.clear();
					p.bones.clear();
					p.numBones = 0;
				}
		}
	}
	return nif;
}

std::string cv_unhex(const std::string& h) {
	std::string o;
	for (size_t i = 0; i + 1 < h.size(); i += 2)
		o.push_back(static_cast<char>(std::strtoul(h.substr(i, 2).c_str(), nullptr, 16)));
	return o;
}
std::string cv_hex(const std::string& s) {
	static const char* d = "0123456789abcdef";
	std::string o;
	for (unsigned char ch : s) {
		o.push_back(d[ch >> 4]);
		o.push_back(d[ch & 15]);
	}
	return o;
}

int oracle_convert(int, char**) {
	std::string line;
	while (std::getline(std::cin, line)) {
		if (line.empty())
			continue;
		Case c = parse_case(line);
		std::ostringstream out;
		out << "I=";
		if (c.op == "file") {
			auto nif = std::make_unique<NifFile>();
			int rc = nif->Load(c.get("path"));
			if (rc != 0)
				out << "{\"load_rc\":" << rc << "}";
			else {
				int mode = static_cast<int>(c.geti("perm"));
				if (mode == 1 || mode == 2) {
					CvRng rng{static_cast<uint64_t>(c.geti("seed")) * 2654435761ULL + 99};
					cv_permute_all(*nif, rng, mode);
					std::stringstream ss(std::ios::in | std::ios::out | std::ios::binary);
					NifSaveOptions so;
					so.optimize = false;
					so.sortBlocks = false;
					nif->Save(ss, so);
					auto re = std::make_unique<NifFile>();
					ss.seekg(0);
					if (re->Load(ss) == 0)
						nif = std::move(re);
				}
				cv_pipeline(std::move(nif), c.get("opts"), c.get("back") != "0", out);
			}
		}
		else if (c.op == "gen") {
			auto nif = cv_build(c);
			// the built model goes through a save + load first so that it is a model a file can hold
			if (c.get("raw") != "1") {
				std::stringstream ss(std::ios::in | std::ios::out | std::ios::binary);
				NifSaveOptions so;
				so.optimize = false;
				so.sortBlocks = false;
				nif->Save(ss, so);
				auto re = std::make_unique<NifFile>();
				ss.seekg(0);
				if (re->Load(ss) == 0)
					nif = std::move(re);
			}
			cv_pipeline(std::move(nif), c.get("opts"), c.get("back") != "0", out);
		}
		else if (c.op == "rename") {
			// nodes = parent index per extra node (node 0 is the root); kids = node:kind:hexname in child order
			NifFile nif;
			nif.Create(NiVersion::getSK());
			auto& hdr = nif.GetHeader();
			std::vector<NiNode*> nodes{nif.GetRootNode()};
			std::vector<std::pair<size_t, NiAVObject*>> order;
			for (auto& ps : split(c.get("nodes"), ';')) {
				size_t p = static_cast<size_t>(std::strtoul(ps.c_str(), nullptr, 10));
				auto n = std::make_unique<NiNode>();
				n->name.get() = "N" + std::to_string(nodes.size());
				auto np = n.get();
				uint32_t id = hdr.AddBlock(std::move(n));
				nodes[p < nodes.size() ? p : 0]->childRefs.AddBlockRef(id);
				nodes.push_back(np);
			}
			std::vector<NiAVObject*> kids;
			for (auto& ks : split(c.get("kids"), ';')) {
				auto f = split(ks, ':');
				if (f.size() < 2)
					continue;
				size_t p = static_cast<size_t>(std::strtoul(f[0].c_str(), nullptr, 10));
				std::string nm = f.size() > 2 ? cv_unhex(f[2]) : std::string();
				NiAVObject* obj;
				uint32_t id;
				if (f[1] == "s") {
					auto s = std::make_unique<NiTriShape>();
					s->name.get() = nm;
					obj = s.get();
					id = hdr.AddBlock(std::move(s));
				}
				else {
					auto s = std::make_unique<NiNode>();
					s->name.get() = nm;
					obj = s.get();
					id = hdr.AddBlock(std::move(s));
				}
				nodes[p < nodes.size() ? p : 0]->childRefs.AddBlockRef(id);
				kids.push_back(obj);
			}
			bool r = nif.RenameDuplicateShapes();
			out << "r=" << (r ? 1 : 0) << " names=";
			for (size_t i = 0; i < kids.size(); ++i)
				out << (i ? "," : "") << cv_hex(kids[i]->name.get());
		}
		else
			out << "?";
		std::cout << out.str() << std::endl;
	}
	return 0;
}

Family reg("convert", oracle_convert);

} // namespace
