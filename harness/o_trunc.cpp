// nifly_oracle trunc: loading prefixes of valid files (C16).
//   bounds name=<sample>            -> file size and the byte offset after every primitive read of Load
//   trunc name=<sample> at=<n>[,<n>...]  -> for each n: Load(first n bytes), query battery, Save, destroy
// Run under ASan/UBSan with a watchdog: a crash, sanitizer report or hang is the observation.
#include <fstream>
#include <sstream>
#define private public
#define protected public
#include "NifFile.hpp"
#undef private
#undef protected
#include "oracle.hpp"

using namespace nifly;

namespace {
std::vector<long> g_offsets;
long g_pos = 0;

void onTransfer(int mode, char*, std::streamsize count) {
	if (mode == 0) {
		g_pos += static_cast<long>(count);
		g_offsets.push_back(g_pos);
	}
}

// @synth:<kind>:<version>: a file built through the API, for geometry kinds no sample file contains.
//   strips : a NiTriStrips shape (NiTriStripsData with three strips, one of them a degenerate 2-point strip) - OB / FO3 / SK
//   shape  : CreateShapeFromData (NiTriShape or BSTriShape, by version) with normals and texture coordinates
//   sits   : the same for FO4 / FO76 with a segmentation that has sub-segments (SetShapeSegments)
std::string synth_file(const std::string& spec) {
	auto p1 = spec.find(':');
	std::string kind = spec.substr(0, p1), ver = p1 == std::string::npos ? "" : spec.substr(p1 + 1);
	NiVersion v = ver == "ob" ? NiVersion::getOB() : ver == "fo3" ? NiVersion::getFO3() : ver == "sk" ? NiVersion::getSK()
				  : ver == "fo4" ? NiVersion::getFO4() : ver == "fo76" ? NiVersion::getFO76() : NiVersion::getSSE();
	NifFile nif;
	nif.Create(v);
	std::vector<Vector3> verts, norms;
	std::vector<Vector2> uvs;
	for (int i = 0; i < 8; ++i) {
		verts.emplace_back(static_cast<float>(i % 4), static_cast<float>(i / 4), 0.25f * static_cast<float>(i));
		norms.emplace_back(0.0f, 0.0f, 1.0f);
		uvs.emplace_back(0.125f * static_cast<float>(i), 0.5f);
	}
	if (kind == "strips") {
		auto shp = std::make_unique<NiTriStrips>();
		shp->name.get() = "Strips";
		auto data = std::make_unique<NiTriStripsData>();
		data->Create(nif.GetHeader().GetVersion(), &verts, nullptr, &uvs, &norms);
		std::vector<std::vector<uint16_t>> strips = {{0, 1, 4, 5, 2}, {2, 3}, {4, 5, 6, 7}};
		for (auto& pts : strips) {
			uint16_t len = static_cast<uint16_t>(pts.size());
			data->stripsInfo.stripLengths.push_back(len);
			data->stripsInfo.points.push_back(pts);
		}
		data->stripsInfo.hasPoints = true;
		data->numTriangles = 5;
		// the shape block comes first, its data block last: a cut inside the data leaves an intact shape that refers to it
		auto shpPtr = shp.get();
		auto dataPtr = data.get();
		int id = nif.GetHeader().AddBlock(std::move(shp));
		nif.GetRootNode()->childRefs.AddBlockRef(id);
		int dataID = nif.GetHeader().AddBlock(std::move(data));
		shpPtr->SetGeomData(dataPtr);
		shpPtr->DataRef()->index = dataID;
	}
	else {
		std::vector<Triangle> tris = {{0, 1, 4}, {1, 5, 4}, {2, 3, 6}, {3, 7, 6}};
		auto shape = nif.CreateShapeFromData("Shape", &verts, &tris, &uvs, &norms);
		if (kind == "sits" && shape) {
			// FO4-style segmentation with sub-segments (no sample file has sub-segments)
			NifSegmentationInfo inf;
			inf.ssfFile = "Meshes\\test.ssf";
			NifSegmentInfo s0, s1;
			s0.partID = 0;
			NifSubSegmentInfo a, b2;
			a.partID = 1;
			a.userSlotID = 30;
			a.material = 0x12345678;
			a.extraData = {0.5f, 1.0f};
			b2.partID = 2;
			b2.userSlotID = 31;
			s0.subs = {a, b2};
			s1.partID = 3;
			inf.segs = {s0, s1};
			std::vector<int> parts = {1, 2, 0, 3};
			NifFile::SetShapeSegments(shape, inf, parts);
		}
	}
	NifSaveOptions raw;
	raw.optimize = false;
	raw.sortBlocks = false;
	std::stringstream ss;
	nif.Save(ss, raw);
	return ss.str();
}

std::string read_file(const std::string& name) {
	if (name.rfind("@synth:", 0) == 0)
		return synth_file(name.substr(7));
	const char* sdir = std::getenv("VERIF_SAMPLES");
	std::ifstream f(std::string(sdir ? sdir : "/repo/tests/input") + "/" + name, std::ios::binary);
	std::stringstream ss;
	ss << f.rdbuf();
	return ss.str();
}

// read-only queries, then both kinds of save; everything must be safe on a partially loaded model
std::string battery(NifFile& nif) {
	std::ostringstream os;
	size_t nshapes = 0, nverts = 0, ntris = 0, nbones = 0, ntex = 0;
	auto names = nif.GetShapeNames();
	for (auto shape : nif.GetShapes()) {
		++nshapes;
		if (auto v = nif.GetVertsForShape(shape))
			nverts += v->size();
		if (auto n = nif.GetNormalsForShape(shape))
			nverts += n->size() * 0;
		if (auto uv = nif.GetUvsForShape(shape))
			nverts += uv->size() * 0;
		std::vector<Triangle> tris;
		shape->GetTriangles(tris);
		ntris += tris.size();
		std::vector<std::string> bones;
		nbones += nif.GetShapeBoneList(shape, bones);
		std::vector<int> ids;
		nif.GetShapeBoneIDList(shape, ids);
		nif.GetShader(shape);
		std::string tex;
		for (uint32_t t = 0; t < 10; ++t)
			if (nif.GetTextureSlot(shape, tex, t))
				++ntex;
		nif.GetTexturePathRefs(shape);
		NifSegmentationInfo sinf;
		std::vector<int> sparts;
		NifFile::GetShapeSegments(shape, sinf, sparts);
	}
	auto nodes = nif.GetNodes();
	std::vector<NiObject*> tree;
	nif.GetTree(tree);
	auto& hdr = nif.GetHeader();
	for (uint32_t i = 0; i < hdr.GetNumBlocks(); ++i) {
		hdr.GetBlockTypeStringById(i);
		hdr.IsBlockReferenced(i);
		hdr.GetBlockSize(i);
	}
	os << "shapes=" << nshapes << " verts=" << nverts << " tris=" << ntris << " bones=" << nbones << " nodes=" << nodes.size()
	   << " tree=" << tree.size() << " tex=" << ntex;
	return os.str();
}

std::string one_trunc(const std::string& data, size_t at) {
	std::ostringstream os;
	std::string prefix = data.substr(0, std::min(at, data.size()));
	{
		NifFile nif;
		std::stringstream in(prefix);
		int rc = nif.Load(in);
		os << "at=" << at << ":load=" << rc;
		if (rc == 0) {
			os << ":" << battery(nif);
			NifFile copy(nif);
			std::stringstream o1, o2;
			NifSaveOptions raw;
			raw.optimize = false;
			raw.sortBlocks = false;
			int s1 = copy.Save(o1, raw);
			int s2 = nif.Save(o2);
			os << ":save=" << s1 << "," << s2 << ":" << o1.str().size() << "," << o2.str().size();
		}
	} // destroyed here
	return os.str();
}

int oracle_trunc(int, char**) {
	std::string line;
	while (std::getline(std::cin, line)) {
		if (line.empty())
			continue;
		Case c = parse_case(line);
		std::ostringstream out;
		if (c.op == "bounds") {
			std::string data = read_file(c.get("name"));
			g_offsets.clear();
			g_pos = 0;
			niVerifHooks().onTransfer = onTransfer;
			{
				NifFile nif;
				std::stringstream in(data);
				int rc = nif.Load(in);
				out << "size=" << data.size() << " load=" << rc << " offsets=";
			}
			niVerifHooks().onTransfer = nullptr;
			for (size_t i = 0; i < g_offsets.size(); ++i)
				out << (i ? "," : "") << g_offsets[i];
		}
		else if (c.op == "trunc") {
			std::string data = read_file(c.get("name"));
			bool first = true;
			for (auto& a : split(c.get("at"), ',')) {
				out << (first ? "" : " ") << one_trunc(data, static_cast<size_t>(std::stoull(a)));
				first = false;
			}
		}
		else
			out << "?";
		std::cout << "I=" << out.str() << std::endl;
	}
	return 0;
}

Family reg("trunc", oracle_trunc);
} // namespace
