// nifly_oracle trunc: loading prefixes of valid files (C16).
//   bounds name=<sample>            -> file size and the byte offset after every primitive read of Load
//   trunc name=<sample> at=<n>[,<n>...]  -> for each n: Load(first n bytes), query battery, Save, destroy
// Run under ASan/UBSan with a watchdog: a crash, sanitizer report or hang is the observation.
#include <fstream>
#include <sstream>
#define private public
#define protected public
#include "NifFile.hpp"
#undef private
#undef protected
#include "oracle.hpp"

using namespace nifly;

namespace {
std::vector<long> g_offsets;
long g_pos = 0;

void onTransfer(int mode, char*, std::streamsize count) {
	if (mode == 0) {
		g_pos += static_cast<long>(count);
		g_offsets.push_back(g_pos);
	}
}

std::string read_file(const std::string& name) {
	const char* sdir = std::getenv("VERIF_SAMPLES");
	std::ifstream f(std::string(sdir ? sdir : "/repo/tests/input") + "/" + name, std::ios::binary);
	std::stringstream ss;
	ss << f.rdbuf();
	return ss.str();
}

// read-only queries, then both kinds of save; everything must be safe on a partially loaded model
std::string battery(NifFile& nif) {
	std::ostringstream os;
	size_t nshapes = 0, nverts = 0, ntris = 0, nbones = 0, ntex = 0;
	auto names = nif.GetShapeNames();
	for (auto shape : nif.GetShapes()) {
		++nshapes;
		if (auto v = nif.GetVertsForShape(shape))
			nverts += v->size();
		if (auto n = nif.GetNormalsForShape(shape))
			nverts += n->size() * 0;
		if (auto uv = nif.GetUvsForShape(shape))
			nverts += uv->size() * 0;
		std::vector<Triangle> tris;
		shape->GetTriangles(tris);
		ntris += tris.size();
		std::vector<std::string> bones;
		nbones += nif.GetShapeBoneList(shape, bones);
		std::vector<int> ids;
		nif.GetShapeBoneIDList(shape, ids);
		nif.GetShader(shape);
		std::string tex;
		for (uint32_t t = 0; t < 10; ++t)
			if (nif.GetTextureSlot(shape, tex, t))
				++ntex;
		nif.GetTexturePathRefs(shape);
	}
	auto nodes = nif.GetNodes();
	std::vector<NiObject*> tree;
	nif.GetTree(tree);
	auto& hdr = nif.GetHeader();
	for (uint32_t i = 0; i < hdr.GetNumBlocks(); ++i) {
		hdr.GetBlockTypeStringById(i);
		hdr.IsBlockReferenced(i);
		hdr.GetBlockSize(i);
	}
	os << "shapes=" << nshapes << " verts=" << nverts << " tris=" << ntris << " bones=" << nbones << " nodes=" << nodes.size()
	   << " tree=" << tree.size() << " tex=" << ntex;
	return os.str();
}

std::string one_trunc(const std::string& data, size_t at) {
	std::ostringstream os;
	std::string prefix = data.substr(0, std::min(at, data.size()));
	{
		NifFile nif;
		std::stringstream in(prefix);
		int rc = nif.Load(in);
		os << "at=" << at << ":load=" << rc;
		if (rc == 0) {
			os << ":" << battery(nif);
			NifFile copy(nif);
			std::stringstream o1, o2;
			NifSaveOptions raw;
			raw.optimize = false;
			raw.sortBlocks = false;
			int s1 = copy.Save(o1, raw);
			int s2 = nif.Save(o2);
			os << ":save=" << s1 << "," << s2 << ":" << o1.str().size() << "," << o2.str().size();
		}
	} // destroyed here
	return os.str();
}

int oracle_trunc(int, char**) {
	std::string line;
	while (std::getline(std::cin, line)) {
		if (line.empty())
			continue;
		Case c = parse_case(line);
		std::ostringstream out;
		if (c.op == "bounds") {
			std::string data = read_file(c.get("name"));
			g_offsets.clear();
			g_pos = 0;
			niVerifHooks().onTransfer = onTransfer;
			{
				NifFile nif;
				std::stringstream in(data);
				int rc = nif.Load(in);
				out << "size=" << data.size() << " load=" << rc << " offsets=";
			}
			niVerifHooks().onTransfer = nullptr;
			for (size_t i = 0; i < g_offsets.size(); ++i)
				out << (i ? "," : "") << g_offsets[i];
		}
		else if (c.op == "trunc") {
			std::string data = read_file(c.get("name"));
			bool first = true;
			for (auto& a : split(c.get("at"), ',')) {
				out << (first ? "" : " ") << one_trunc(data, static_cast<size_t>(std::stoull(a)));
				first = false;
			}
		}
		else
			out << "?";
		std::cout << "I=" << out.str() << std::endl;
	}
	return 0;
}

Family reg("trunc", oracle_trunc);
} // namespace
