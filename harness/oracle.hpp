// Common glue of nifly_oracle: case-line parsing and printing. I/O only.
#pragma once
#include <cstdint>
#include <cstdlib>
#include <iostream>
#include <map>
#include <sstream>
#include <string>
#include <vector>

struct Case {
	std::string op;
	std::map<std::string, std::string> kv;
	std::string raw;
	std::string get(const std::string& k) const {
		auto it = kv.find(k);
		return it == kv.end() ? std::string() : it->second;
	}
	long long geti(const std::string& k) const { return std::strtoll(get(k).c_str(), nullptr, 10); }
};

inline std::vector<std::string> split(const std::string& s, char c) {
	std::vector<std::string> out;
	if (s.empty())
		return out;
	std::string cur;
	for (char ch : s) {
		if (ch == c) {
			out.push_back(cur);
			cur.clear();
		}
		else
			cur.push_back(ch);
	}
	out.push_back(cur);
	return out;
}

inline Case parse_case(const std::string& line) {
	Case c;
	c.raw = line;
	std::istringstream is(line);
	std::string tok;
	bool first = true;
	while (is >> tok) {
		if (first) {
			c.op = tok;
			first = false;
			continue;
		}
		auto p = tok.find('=');
		if (p == std::string::npos)
			c.kv[tok] = "";
		else
			c.kv[tok.substr(0, p)] = tok.substr(p + 1);
	}
	return c;
}

template<typename T>
std::vector<T> get_list(const Case& c, const std::string& k) {
	std::vector<T> out;
	for (auto& s : split(c.get(k), ','))
		out.push_back(static_cast<T>(std::strtoll(s.c_str(), nullptr, 10)));
	return out;
}

template<typename T>
std::string str_list(const std::vector<T>& v) {
	std::ostringstream os;
	for (size_t i = 0; i < v.size(); ++i) {
		if (i)
			os << ",";
		os << +v[i];
	}
	return os.str();
}

// one family = one entry point reading case lines from stdin, one output line per case.
// A family registers itself:  static Family reg("util", oracle_util);
using FamilyFn = int (*)(int argc, char** argv);
std::map<std::string, FamilyFn>& families();
struct Family {
	Family(const char* name, FamilyFn fn) { families()[name] = fn; }
};
