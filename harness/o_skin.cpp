// nifly_oracle skin: (1) "raw": a NiSkinPartition in an arbitrary given state, one of the Skin.cpp
// methods applied to it; (2) "hist": a skinned shape built through NifFile's public API for
// OB / FO3 / SK / SSE, a history of partition operations applied to it, optional save + reload.
// Dumps NiSkinPartition::partitions, triParts and BSDismemberSkinInstance::partitions after every
// step. I/O and API calls only; no logic of the code under study is re-implemented here.
#include <cmath>
#include <cstdio>
#include <fstream>
#include <sstream>
#define private public
#define protected public
#include "NifFile.hpp"
#undef private
#undef protected
#include "oracle.hpp"

using namespace nifly;

namespace {

std::string fl(float f) {
	char buf[64];
	std::snprintf(buf, sizeof buf, "%.9g", f);
	return buf;
}

std::string str_tris(const std::vector<Triangle>& ts) {
	std::ostringstream os;
	for (size_t i = 0; i < ts.size(); ++i)
		os << (i ? ";" : "") << ts[i].p1 << ":" << ts[i].p2 << ":" << ts[i].p3;
	return os.str();
}

std::vector<Triangle> parse_tris(const std::string& s) {
	std::vector<Triangle> out;
	for (auto& t : split(s, ';')) {
		auto p = split(t, ':');
		if (p.size() == 3)
			out.emplace_back(static_cast<uint16_t>(std::stoul(p[0])), static_cast<uint16_t>(std::stoul(p[1])),
							 static_cast<uint16_t>(std::stoul(p[2])));
	}
	return out;
}

template<typename T>
std::vector<T> parse_list(const std::string& s, char sep = ',') {
	std::vector<T> out;
	for (auto& x : split(s, sep))
		out.push_back(static_cast<T>(std::strtoll(x.c_str(), nullptr, 10)));
	return out;
}

// part := nv.nt.nb.ns.nw/bones/hvm/vm/hvw/W/hf/tris/hbi/BI/tt/strips
std::string dump_part(const NiSkinPartition::PartitionBlock& p) {
	std::ostringstream os;
	os << p.numVertices << "." << p.numTriangles << "." << p.numBones << "." << p.numStrips << "." << p.numWeightsPerVertex;
	os << "/" << str_list(p.bones) << "/" << (p.hasVertexMap ? 1 : 0) << "/" << str_list(p.vertexMap) << "/"
	   << (p.hasVertexWeights ? 1 : 0) << "/";
	for (size_t i = 0; i < p.vertexWeights.size(); ++i) {
		auto& w = p.vertexWeights[i];
		os << (i ? ";" : "") << fl(w.w1) << ":" << fl(w.w2) << ":" << fl(w.w3) << ":" << fl(w.w4);
	}
	os << "/" << (p.hasFaces ? 1 : 0) << "/" << str_tris(p.triangles) << "/" << (p.hasBoneIndices ? 1 : 0) << "/";
	for (size_t i = 0; i < p.boneIndices.size(); ++i) {
		auto& b = p.boneIndices[i];
		os << (i ? ";" : "") << +b.i1 << ":" << +b.i2 << ":" << +b.i3 << ":" << +b.i4;
	}
	os << "/" << str_tris(p.trueTriangles) << "/";
	for (size_t i = 0; i < p.strips.size(); ++i)
		os << (i ? ";" : "") << str_list(p.strips[i]);
	return os.str();
}

NiSkinPartition::PartitionBlock parse_part(const std::string& s) {
	NiSkinPartition::PartitionBlock p;
	auto f = split(s, '/');
	f.resize(12);
	auto c = parse_list<uint16_t>(f[0], '.');
	c.resize(5);
	p.numVertices = c[0];
	p.numTriangles = c[1];
	p.numBones = c[2];
	p.numStrips = c[3];
	p.numWeightsPerVertex = c[4];
	p.bones = parse_list<uint16_t>(f[1]);
	p.hasVertexMap = f[2] == "1";
	p.vertexMap = parse_list<uint16_t>(f[3]);
	p.hasVertexWeights = f[4] == "1";
	for (auto& w : split(f[5], ';')) {
		auto k = parse_list<int>(w, ':');
		k.resize(4);
		VertexWeight vw;
		vw.w1 = k[0] / 256.0f;
		vw.w2 = k[1] / 256.0f;
		vw.w3 = k[2] / 256.0f;
		vw.w4 = k[3] / 256.0f;
		p.vertexWeights.push_back(vw);
	}
	p.hasFaces = f[6] == "1";
	p.triangles = parse_tris(f[7]);
	p.hasBoneIndices = f[8] == "1";
	for (auto& w : split(f[9], ';')) {
		auto k = parse_list<int>(w, ':');
		k.resize(4);
		BoneIndices b;
		b.i1 = static_cast<uint8_t>(k[0]);
		b.i2 = static_cast<uint8_t>(k[1]);
		b.i3 = static_cast<uint8_t>(k[2]);
		b.i4 = static_cast<uint8_t>(k[3]);
		p.boneIndices.push_back(b);
	}
	p.trueTriangles = parse_tris(f[10]);
	for (auto& st : split(f[11], ';')) {
		p.strips.push_back(parse_list<uint16_t>(st));
		p.stripLengths.push_back(static_cast<uint16_t>(p.strips.back().size()));
	}
	return p;
}

std::string dump_sp(const NiSkinPartition& sp) {
	std::ostringstream os;
	os << "np=" << sp.numPartitions << " m=" << (sp.bMappedIndices ? 1 : 0) << " tp=" << str_list(sp.triParts) << " P=";
	for (size_t i = 0; i < sp.partitions.size(); ++i)
		os << (i ? "+" : "") << dump_part(sp.partitions[i]);
	return os.str();
}

std::string dump_info(NiVector<BSDismemberSkinInstance::PartitionInfo>& v) {
	std::ostringstream os;
	for (uint32_t i = 0; i < v.size(); ++i)
		os << (i ? "," : "") << static_cast<unsigned>(v[i].flags) << ":" << v[i].partID;
	return os.str();
}

NiVector<BSDismemberSkinInstance::PartitionInfo> parse_info(const std::string& s) {
	NiVector<BSDismemberSkinInstance::PartitionInfo> v;
	for (auto& e : split(s, ',')) {
		auto k = parse_list<unsigned>(e, ':');
		k.resize(2);
		BSDismemberSkinInstance::PartitionInfo pi;
		pi.flags = static_cast<PartitionFlags>(k[0]);
		pi.partID = static_cast<uint16_t>(k[1]);
		v.push_back(pi);
	}
	return v;
}

// ---------------------------------------------------------------------------------------------
// raw: one Skin.cpp method on an arbitrary NiSkinPartition state
std::string run_raw(const Case& c) {
	NiSkinPartition sp;
	sp.bMappedIndices = c.get("m") == "1";
	for (auto& ps : split(c.get("parts"), '+'))
		sp.partitions.push_back(parse_part(ps));
	sp.numPartitions = c.kv.count("np") ? static_cast<uint32_t>(c.geti("np")) : static_cast<uint32_t>(sp.partitions.size());
	sp.triParts = parse_list<int>(c.get("tp"));
	auto shape = parse_tris(c.get("shape"));
	std::string fn = c.get("fn");
	size_t k = static_cast<size_t>(c.geti("k"));
	std::ostringstream os;
	if (fn == "conv1")
		os << "r=" << sp.partitions.at(k).ConvertStripsToTriangles() << " ";
	else if (fn == "ttm")
		sp.partitions.at(k).GenerateTrueTrianglesFromMappedTriangles();
	else if (fn == "mtt")
		sp.partitions.at(k).GenerateMappedTrianglesFromTrueTrianglesAndVertexMap();
	else if (fn == "vmt")
		sp.partitions.at(k).GenerateVertexMapFromTrueTriangles();
	else if (fn == "conv")
		os << "r=" << sp.ConvertStripsToTriangles() << " ";
	else if (fn == "ptt")
		sp.PrepareTrueTriangles();
	else if (fn == "pvm")
		sp.PrepareVertexMapsAndTriangles();
	else if (fn == "gtp")
		sp.GenerateTriPartsFromTrueTriangles(shape);
	else if (fn == "gtt")
		sp.GenerateTrueTrianglesFromTriParts(shape);
	else if (fn == "ptp")
		sp.PrepareTriParts(shape);
	else if (fn == "del")
		sp.DeletePartitions(parse_list<uint32_t>(c.get("arg")));
	else if (fn == "rem") {
		std::vector<uint32_t> outv;
		uint32_t r = sp.RemoveEmptyPartitions(outv);
		os << "r=" << r << ";" << str_list(outv) << " ";
	}
	else
		return "?";
	os << dump_sp(sp);
	return os.str();
}

// ---------------------------------------------------------------------------------------------
// hist: a shape built through the public API, then a history of partition operations
struct Hist {
	NifFile nif;
	NiShape* shape = nullptr;

	NiSkinInstance* skinInst() { return nif.hdr.GetBlock<NiSkinInstance>(shape->SkinInstanceRef()); }
	NiSkinPartition* skinPart() {
		auto si = skinInst();
		return si ? nif.hdr.GetBlock(si->skinPartitionRef) : nullptr;
	}
	BSDismemberSkinInstance* dis() { return nif.hdr.GetBlock<BSDismemberSkinInstance>(shape->SkinInstanceRef()); }

	std::string dump() {
		std::ostringstream os;
		auto sp = skinPart();
		if (!sp)
			return "nosp";
		os << dump_sp(*sp) << " dis=";
		auto d = dis();
		if (d)
			os << dump_info(d->partitions);
		else
			os << "none";
		return os.str();
	}
};

NiVersion version_of(const std::string& v) {
	if (v == "OB")
		return NiVersion::getOB();
	if (v == "FO3")
		return NiVersion::getFO3();
	if (v == "SK")
		return NiVersion::getSK();
	return NiVersion::getSSE();
}

bool build(Hist& h, const Case& c) {
	h.nif.Create(version_of(c.get("ver")));
	size_t nv = static_cast<size_t>(c.geti("nv"));
	std::vector<Vector3> verts(nv);
	for (size_t i = 0; i < nv; ++i)
		verts[i] = Vector3(static_cast<float>(i % 7), static_cast<float>(i % 11), static_cast<float>(i % 13));
	auto tris = parse_tris(c.get("tris"));
	h.shape = h.nif.CreateShapeFromData("S", &verts, &tris, nullptr, nullptr);
	if (!h.shape)
		return false;
	h.nif.CreateSkinning(h.shape);
	// bones: nodes + bone id list through the API; the per-bone weight lists are written in the
	// given order (api=1: through SetShapeBoneWeights, which drops weights below 0.0001)
	auto bones = split(c.get("w"), ';');
	size_t nb = static_cast<size_t>(c.geti("nb"));
	bones.resize(nb);
	std::vector<int> ids;
	for (size_t b = 0; b < nb; ++b) {
		auto node = h.nif.AddNode("B" + std::to_string(b), MatTransform());
		ids.push_back(h.nif.GetBlockID(node));
	}
	h.nif.SetShapeBoneIDList(h.shape, ids);
	auto si = h.skinInst();
	if (!si)
		return false;
	auto sd = h.nif.hdr.GetBlock(si->dataRef);
	if (!sd)
		return false;
	bool api = c.get("api") == "1";
	for (size_t b = 0; b < nb && b < sd->bones.size(); ++b) {
		std::unordered_map<uint16_t, float> wm;
		std::vector<SkinWeight> lst;
		for (auto& e : split(bones[b], ',')) {
			auto k = parse_list<int>(e, ':');
			if (k.size() != 2)
				continue;
			lst.emplace_back(static_cast<uint16_t>(k[0]), k[1] / 256.0f);
			wm[static_cast<uint16_t>(k[0])] = k[1] / 256.0f;
		}
		if (api)
			h.nif.SetShapeBoneWeights("S", static_cast<uint32_t>(b), wm);
		else {
			sd->bones[b].vertexWeights = lst;
			sd->bones[b].numVertices = static_cast<uint16_t>(lst.size());
		}
	}
	if (c.get("dismember") == "0") {
		auto d = h.dis();
		if (d) {
			auto ni = std::make_unique<NiSkinInstance>();
			*ni = *static_cast<NiSkinInstance*>(d);
			h.nif.hdr.ReplaceBlock(h.nif.GetBlockID(d), std::move(ni));
		}
	}
	return true;
}

std::string apply_op(Hist& h, const std::string& op) {
	char k = op[0];
	std::string a = op.substr(1);
	std::ostringstream pre;
	if (k == 'U')
		h.nif.UpdateSkinPartitions(h.shape);
	else if (k == 'G') {
		NiVector<BSDismemberSkinInstance::PartitionInfo> info;
		std::vector<int> tp;
		bool r = h.nif.GetShapePartitions(h.shape, info, tp);
		pre << "get=" << (r ? 1 : 0) << ";" << dump_info(info) << ";" << str_list(tp) << " ";
	}
	else if (k == 'D')
		h.nif.SetDefaultPartition(h.shape);
	else if (k == 'X') {
		auto ids = parse_list<uint32_t>(a);
		h.nif.DeletePartitions(h.shape, ids);
	}
	else if (k == 'E')
		h.nif.RemoveEmptyPartitions(h.shape);
	else if (k == 'S') {
		auto f = split(a, '@');
		f.resize(3);
		auto info = parse_info(f[0]);
		auto tp = parse_list<int>(f[1]);
		h.nif.SetShapePartitions(h.shape, info, tp, f[2] != "0");
	}
	else if (k == 'Z') {
		// not an API call: puts the dismember list into the state a loaded file may have
		auto d = h.dis();
		if (d)
			d->partitions.resize(static_cast<uint32_t>(std::stoul(a)));
	}
	return pre.str() + h.dump();
}

// prints step by step (flushed), so that the steps before a crash are still observed
void run_hist(const Case& c) {
	Hist h;
	std::ostream& out = std::cout;
	out << "I=" << std::flush;
	if (!build(h, c)) {
		out << "BUILDFAIL" << std::endl;
		return;
	}
	out << h.dump() << std::flush;
	for (auto& op : split(c.get("ops"), '!')) {
		if (op.empty())
			continue;
		out << " | " << std::flush;
		out << apply_op(h, op) << std::flush;
	}
	if (c.get("reload") == "1") {
		std::stringstream ss;
		int src = h.nif.Save(ss);
		out << " | SAVED rc=" << src << " " << h.dump();
		Hist r;
		ss.seekg(0);
		int lrc = r.nif.Load(ss);
		r.shape = lrc == 0 ? r.nif.FindBlockByName<NiShape>("S") : nullptr;
		out << " | RELOAD rc=" << lrc << " ";
		if (r.shape) {
			std::vector<Triangle> tris;
			r.shape->GetTriangles(tris);
			out << "shape=" << str_tris(tris) << " " << apply_op(r, "G");
		}
		else
			out << "noshape";
	}
	out << std::endl;
}

// "file": the k-th skinned shape (NiSkinInstance + NiSkinPartition) of a sample file. Prints what the
// model needs to start from the same state (version, vertex count, triangles, the NiSkinData weights as
// exact binary fractions m*2^e) and then the dump after loading and after every operation.
void run_file(const Case& c) {
	std::ostream& out = std::cout;
	out << "I=" << std::flush;
	const char* sdir = std::getenv("VERIF_SAMPLES");
	std::string samples = sdir ? sdir : "/repo/tests/input";
	Hist h;
	std::ifstream f(samples + "/" + c.get("name"), std::ios::binary);
	if (h.nif.Load(f) != 0) {
		out << "LOADFAIL" << std::endl;
		return;
	}
	long long want = c.geti("k"), seen = 0;
	for (auto& sh : h.nif.GetShapes()) {
		auto si = h.nif.hdr.GetBlock<NiSkinInstance>(sh->SkinInstanceRef());
		if (!si || !h.nif.hdr.GetBlock(si->skinPartitionRef) || !h.nif.hdr.GetBlock(si->dataRef))
			continue;
		if (seen++ == want) {
			h.shape = sh;
			break;
		}
	}
	if (!h.shape) {
		out << "NOSHAPE" << std::endl;
		return;
	}
	auto& v = h.nif.hdr.GetVersion();
	const char* ver = v.IsOB() ? "OB" : v.IsFO3() ? "FO3" : v.IsSK() ? "SK" : v.IsSSE() ? "SSE" : "OTHER";
	std::vector<Triangle> tris;
	bool hastris = h.shape->GetTriangles(tris);
	out << "FILE ver=" << ver << " nv=" << h.shape->GetNumVertices() << " hastris=" << (hastris ? 1 : 0)
		<< " bs=" << (h.shape->HasType<BSTriShape>() ? 1 : 0) << " tris=" << str_tris(tris) << " wx=";
	auto sd = h.nif.hdr.GetBlock(h.skinInst()->dataRef);
	for (size_t b = 0; b < sd->bones.size(); ++b) {
		out << (b ? ";" : "");
		auto& vw = sd->bones[b].vertexWeights;
		for (size_t i = 0; i < vw.size(); ++i) {
			int e = 0;
			double m = std::frexp(static_cast<double>(vw[i].weight), &e); // weight = m * 2^e, |m| in [0.5, 1)
			long long mi = static_cast<long long>(std::ldexp(m, 24));       // exact: a float has 24 mantissa bits
			out << (i ? "," : "") << vw[i].index << ":" << mi << ":" << (e - 24);
		}
	}
	out << " | " << h.dump() << std::flush;
	for (auto& op : split(c.get("ops"), '!')) {
		if (op.empty())
			continue;
		out << " | " << std::flush;
		out << apply_op(h, op) << std::flush;
	}
	out << std::endl;
}

int oracle_skin(int, char**) {
	std::string line;
	while (std::getline(std::cin, line)) {
		if (line.empty())
			continue;
		Case c = parse_case(line);
		if (c.op == "hist") {
			run_hist(c);
			continue;
		}
		if (c.op == "file") {
			run_file(c);
			continue;
		}
		std::string r = c.op == "raw" ? run_raw(c) : "?";
		std::cout << "I=" << r << std::endl;
	}
	return 0;
}

Family reg("skin", oracle_skin);

} // namespace
