// nifly_oracle util: instantiates the templates of include/NifUtil.hpp with the index types the
// callers use and prints the results, one line per case.
#include "oracle.hpp"
#include "NifUtil.hpp"
#include <map>
#include <unordered_map>

using namespace nifly;

static std::vector<int> mkvec(long long n) {
	std::vector<int> v;
	for (long long i = 0; i < n; ++i)
		v.push_back(static_cast<int>(100 + i));
	return v;
}

template<typename IT>
static std::string do_erase(const Case& c) {
	auto v = mkvec(c.geti("n"));
	auto idx = get_list<IT>(c, "idx");
	EraseVectorIndices(v, idx);
	return str_list(v);
}

template<typename IT>
static std::string do_insert(const Case& c) {
	auto v = mkvec(c.geti("n"));
	auto idx = get_list<IT>(c, "idx");
	size_t before = v.size();
	InsertVectorIndices(v, idx);
	// positions listed in idx hold unspecified (moved-from / value-initialised) values: mask them
	std::ostringstream os;
	bool grew = v.size() != before;
	for (size_t i = 0; i < v.size(); ++i) {
		if (i)
			os << ",";
		bool listed = false;
		if (grew)
			for (auto k : idx)
				if (static_cast<size_t>(k) == i)
					listed = true;
		if (listed)
			os << "_";
		else
			os << v[i];
	}
	return os.str();
}

template<typename I1, typename I2>
static std::string do_map(const Case& c, bool expand) {
	auto idx = get_list<I1>(c, "idx");
	I2 n = static_cast<I2>(c.geti("n"));
	std::vector<int> m = expand ? GenerateIndexExpandMap(idx, n) : GenerateIndexCollapseMap(idx, n);
	return str_list(m);
}

static std::vector<Triangle> parse_tris(const std::string& s) {
	std::vector<Triangle> tris;
	for (auto& t : split(s, ';')) {
		auto p = split(t, ':');
		tris.emplace_back(static_cast<uint16_t>(std::stoul(p[0])), static_cast<uint16_t>(std::stoul(p[1])),
						  static_cast<uint16_t>(std::stoul(p[2])));
	}
	return tris;
}

static std::string str_tris(const std::vector<Triangle>& tris) {
	std::ostringstream os;
	for (size_t i = 0; i < tris.size(); ++i) {
		if (i)
			os << ";";
		os << tris[i].p1 << ":" << tris[i].p2 << ":" << tris[i].p3;
	}
	return os.str();
}

template<typename I1, typename I2>
static std::string do_amt(const Case& c) {
	auto tris = parse_tris(c.get("tris"));
	auto map = get_list<I1>(c, "map");
	std::vector<I2> del;
	ApplyMapToTriangles(tris, map, &del);
	return str_tris(tris) + "|" + str_list(del);
}

template<typename IT>
static std::string do_strips(const Case& c) {
	std::vector<std::vector<IT>> strips;
	for (auto& s : split(c.get("strips"), ';')) {
		std::vector<IT> st;
		for (auto& p : split(s, ','))
			st.push_back(static_cast<IT>(std::stoull(p)));
		strips.push_back(st);
	}
	// an empty strip list element written as "" is dropped by split: encode empty strips as "e"
	return str_tris(GenerateTrianglesFromStrips(strips));
}

// ApplyIndexMapToMapKeys on a std::map / std::unordered_map with the given key type. Prints the
// resulting entries by ascending key (for std::map: in the container's own iteration order, which
// must be the same thing), then '@' and the order in which the INPUT container iterates (the loop
// model takes that order as an input).
template<typename MapT, bool Ordered>
static std::string do_mapkeys(const Case& c) {
	using K = typename MapT::key_type;
	auto keys = get_list<long long>(c, "keys");
	auto vals = get_list<int>(c, "vals");
	const std::vector<int> im = get_list<int>(c, "map");
	const int off = static_cast<int>(c.geti("off"));
	MapT m;
	for (size_t i = 0; i < keys.size() && i < vals.size(); ++i)
		m.emplace(static_cast<K>(keys[i]), vals[i]);
	std::ostringstream order;
	bool first = true;
	for (auto& d : m) {
		if (!first)
			order << ",";
		first = false;
		order << +d.first;
	}
	// the call may trap (signed overflow under UBSan): earlier result lines must not be lost
	std::cout << std::flush;
	ApplyIndexMapToMapKeys(m, im, off);
	std::ostringstream os;
	first = true;
	auto put = [&](K k, int v) {
		if (!first)
			os << ";";
		first = false;
		os << +k << ":" << v;
	};
	if (Ordered) {
		for (auto& d : m)
			put(d.first, d.second);
	}
	else {
		std::map<K, int> sorted(m.begin(), m.end());
		for (auto& d : sorted)
			put(d.first, d.second);
	}
	return os.str() + "@" + order.str();
}

static int oracle_util(int, char**) {
	std::string line;
	while (std::getline(std::cin, line)) {
		if (line.empty())
			continue;
		Case c = parse_case(line);
		long long w = c.geti("w");
		bool sg = c.geti("sg") == 1;
		std::string r = "?";
		if (c.op == "erase")
			r = w == 8 ? do_erase<uint8_t>(c) : w == 16 ? do_erase<uint16_t>(c) : w == 32 ? do_erase<uint32_t>(c) : do_erase<uint64_t>(c);
		else if (c.op == "insert")
			r = w == 8 ? do_insert<uint8_t>(c) : w == 16 ? do_insert<uint16_t>(c) : w == 32 ? do_insert<uint32_t>(c) : do_insert<uint64_t>(c);
		else if (c.op == "collapse" || c.op == "expand") {
			bool e = c.op == "expand";
			if (sg)
				r = do_map<uint16_t, int>(c, e); // w = 31 value bits
			else
				r = w == 8 ? do_map<uint8_t, uint8_t>(c, e) : w == 16 ? do_map<uint16_t, uint16_t>(c, e) : w == 32 ? do_map<uint32_t, uint32_t>(c, e) : do_map<uint16_t, size_t>(c, e);
		}
		else if (c.op == "amt") {
			if (sg)
				r = do_amt<int, int>(c);
			else
				r = w == 16 ? do_amt<int, uint16_t>(c) : do_amt<int, uint32_t>(c);
		}
		else if (c.op == "strips")
			r = w == 16 ? do_strips<uint16_t>(c) : do_strips<uint32_t>(c);
		else if (c.op == "mapkeys") {
			bool ord = c.get("c") != "u";
			if (w == 16)
				r = ord ? do_mapkeys<std::map<uint16_t, int>, true>(c) : do_mapkeys<std::unordered_map<uint16_t, int>, false>(c);
			else if (w == 32)
				r = ord ? do_mapkeys<std::map<uint32_t, int>, true>(c) : do_mapkeys<std::unordered_map<uint32_t, int>, false>(c);
			else // w = 31 value bits: int
				r = ord ? do_mapkeys<std::map<int, int>, true>(c) : do_mapkeys<std::unordered_map<int, int>, false>(c);
		}
		std::cout << "I=" << r << "\n";
	}
	return 0;
}

static Family reg("util", oracle_util);
