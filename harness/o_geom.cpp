// nifly_oracle geom: builds shapes of every geometry kind through the public API (or loads a
// sample), deletes vertex sets with NifFile::DeleteVertsForShape, sets / reads segmentations, and
// dumps every modelled field (counters next to their containers) after each step and after
// save + reload.  Serves C09 and C17.  Dump grammar: see tools/geomspec.py.
#include <algorithm>
#include <cstring>
#include <fstream>
#include <sstream>
#define private public
#define protected public
#include "NifFile.hpp"
#undef private
#undef protected
#include "half.hpp"
#include "oracle.hpp"

using namespace nifly;

namespace {

uint32_t fnv(const void* p, size_t n, uint32_t h = 2166136261u) {
	auto b = static_cast<const unsigned char*>(p);
	for (size_t i = 0; i < n; ++i) {
		h ^= b[i];
		h *= 16777619u;
	}
	return h;
}

// tokens of per-vertex payloads: a hash of the bytes that the file format stores
uint32_t tokf(const float* f, size_t n) {
	uint32_t h = 2166136261u;
	for (size_t i = 0; i < n; ++i) {
		float v = f[i] == 0.0f ? 0.0f : f[i]; // -0.0 and 0.0 are the same value
		h = fnv(&v, 4, h);
	}
	return h;
}
uint32_t tok(const Vector3& v) {
	float f[3] = {v.x, v.y, v.z};
	return tokf(f, 3);
}
uint32_t tok(const Vector2& v) {
	float f[2] = {v.u, v.v};
	return tokf(f, 2);
}
uint32_t tok(const Color4& c) {
	float f[4] = {c.r, c.g, c.b, c.a};
	return tokf(f, 4);
}
uint32_t tok(const Vector4& v) {
	float f[4] = {v.x, v.y, v.z, v.w};
	return tokf(f, 4);
}
// the value a float has after being stored as a half float (what SyncHalf writes and reads back)
float viahalf(float f) {
	half_float::half hf;
	hf = f;
	return hf;
}
// halfprec: positions are stored as half floats (FO4-style shapes without VF_FULLPREC)
uint32_t tokvd(const BSVertexData& v, const VertexDesc& d, bool dynamic, bool halfprec) {
	uint32_t h = 2166136261u;
	float f[4] = {v.vert.x, v.vert.y, v.vert.z, v.bitangentX};
	if (halfprec)
		for (float& x : f)
			x = viahalf(x);
	// a dynamic shape keeps its positions in dynamicData (dumped separately)
	if (d.HasFlag(VF_VERTEX) && !dynamic)
		h = tokf(f, 4) ^ h;
	if (d.HasFlag(VF_UV)) {
		float u[2] = {viahalf(v.uv.u), viahalf(v.uv.v)};
		h = fnv(u, 8, h);
	}
	if (d.HasFlag(VF_NORMAL)) {
		h = fnv(v.normal, 3, h);
		h = fnv(&v.bitangentY, 1, h);
		if (d.HasFlag(VF_TANGENT)) {
			h = fnv(v.tangent, 3, h);
			h = fnv(&v.bitangentZ, 1, h);
		}
	}
	if (d.HasFlag(VF_COLORS))
		h = fnv(v.colorData, 4, h);
	if (d.HasFlag(VF_SKINNED)) {
		float w[4] = {viahalf(v.weights[0]), viahalf(v.weights[1]), viahalf(v.weights[2]), viahalf(v.weights[3])};
		h = fnv(w, 16, h);
		h = fnv(v.weightBones, 4, h);
	}
	if (d.HasFlag(VF_EYEDATA))
		h = fnv(&v.eyeData, 4, h);
	return h;
}

template<typename C, typename F>
std::string joinf(const C& c, const char* sep, F f, const char* empty = "") {
	std::ostringstream os;
	bool first = true;
	for (auto& x : c) {
		if (!first)
			os << sep;
		first = false;
		os << f(x);
	}
	std::string s = os.str();
	return first ? std::string(empty) : s;
}

std::string tri_str(const Triangle& t, char sep) {
	std::ostringstream os;
	os << t.p1 << sep << t.p2 << sep << t.p3;
	return os.str();
}
std::string tris_str(const std::vector<Triangle>& v, const char* outer, char inner) {
	return joinf(v, outer, [&](const Triangle& t) { return tri_str(t, inner); });
}
template<typename V>
std::string toks(const V& v) {
	return joinf(v, ",", [](const auto& x) { return std::to_string(tok(x)); });
}
template<typename V>
std::string nums(const V& v, const char* sep = ",", const char* empty = "") {
	return joinf(v, sep, [](const auto& x) { return std::to_string(static_cast<unsigned long long>(x)); }, empty);
}

uint32_t g_stream = 100; // stream version of the model being dumped

void dump_gdata(std::ostringstream& os, NiGeometryData* g) {
	const char* k = "base";
	auto tsd = dynamic_cast<NiTriShapeData*>(g);
	auto tst = dynamic_cast<NiTriStripsData*>(g);
	auto lin = dynamic_cast<NiLinesData*>(g);
	if (tsd)
		k = "tri";
	else if (tst)
		k = "strips";
	else if (lin)
		k = "lines";
	os << " gk=" << k << " gnv=" << g->numVertices << " gV=" << toks(g->vertices) << " gN=" << toks(g->normals)
	   << " gT=" << toks(g->tangents) << " gB=" << toks(g->bitangents) << " gC=" << toks(g->vertexColors) << " gUV="
	   << joinf(
			  g->uvSets, ";", [](const std::vector<Vector2>& s) { return joinf(s, ".", [](const Vector2& v) { return std::to_string(tok(v)); }, "-"); });
	auto tb = dynamic_cast<NiTriBasedGeomData*>(g);
	os << " gnt=" << (tb ? tb->numTriangles : 0);
	os << " gntp=" << (tsd ? tsd->numTrianglePoints : 0);
	os << " gTR=" << (tsd ? tris_str(tsd->triangles, ";", '.') : std::string());
	if (tst) {
		std::vector<uint16_t> sl(tst->stripsInfo.stripLengths.begin(), tst->stripsInfo.stripLengths.end());
		os << " gSL=" << nums(sl);
		os << " gSP=" << joinf(
			tst->stripsInfo.points, ";", [](const std::vector<uint16_t>& s) { return nums(s, ".", "-"); });
	}
	else
		os << " gSL= gSP=";
	os << " gLF=";
	if (lin) {
		bool first = true;
		for (bool b : lin->lineFlags) {
			os << (first ? "" : ",") << (b ? 1 : 0);
			first = false;
		}
	}
}

void dump_bs(std::ostringstream& os, BSTriShape* b) {
	const char* k = "plain";
	auto dyn = dynamic_cast<BSDynamicTriShape*>(b);
	auto lod = dynamic_cast<BSMeshLODTriShape*>(b);
	auto sits = dynamic_cast<BSSubIndexTriShape*>(b);
	if (dyn)
		k = "dyn";
	else if (lod)
		k = "lod";
	else if (sits)
		k = "sits";
	bool halfprec = !b->IsFullPrecision() && g_stream != 100;
	os << " bk=" << k << " bnv=" << b->numVertices << " bVD="
	   << joinf(b->vertData, ",", [&](const BSVertexData& v) { return std::to_string(tokvd(v, b->vertexDesc, dyn != nullptr, halfprec)); })
	   << " bnt=" << b->numTriangles << " bTR=" << tris_str(b->triangles, ";", '.') << " bDT=" << nums(b->deletedTris);
	os << " bDD=" << (dyn ? toks(dyn->dynamicData) : std::string()) << " bdds=" << (dyn ? dyn->dynamicDataSize : 0);
	os << " blod=" << (lod ? lod->lodSize0 : 0) << "," << (lod ? lod->lodSize1 : 0) << "," << (lod ? lod->lodSize2 : 0);
	if (sits) {
		auto& sn = sits->segmentation;
		os << " snp=" << sn.numPrimitives << " sns=" << sn.numSegments << " snt=" << sn.numTotalSegments << " sSG="
		   << joinf(sn.segments, ";", [](const BSSubIndexTriShape::BSSITSSegment& s) {
				  std::ostringstream o;
				  o << s.startIndex << ":" << s.numPrimitives << ":" << s.numSubSegments << ":"
					<< joinf(
						   s.subSegments, "+", [](const BSSubIndexTriShape::BSSITSSubSegment& ss) { return std::to_string(ss.startIndex) + "." + std::to_string(ss.numPrimitives); }, "-");
				  return o.str();
			  });
		os << " ssn=" << sn.subSegmentData.numSegments << " sst=" << sn.subSegmentData.numTotalSegments
		   << " sAI=" << nums(sn.subSegmentData.arrayIndices) << " sRC="
		   << joinf(sn.subSegmentData.dataRecords, ";", [](const BSSubIndexTriShape::BSSITSSubSegmentDataRecord& r) {
				  uint32_t h = fnv(&r.material, 4);
				  for (float f : r.extraData)
					  h = fnv(&f, 4, h);
				  // the record a segment itself gets from SetSegmentation (material -1, no data) is token 0
				  if (r.material == 0xFFFFFFFFu && r.extraData.empty())
					  h = 0;
				  return std::to_string(r.userSlotID) + "." + std::to_string(h);
			  });
		const std::string& ssf = sn.subSegmentData.ssfFile.get();
		os << " sssf=" << (ssf.empty() ? 0u : fnv(ssf.data(), ssf.size()));
		os << " ssen=" << sits->numSegments << " sSSE="
		   << joinf(sits->segments, ";", [](const BSGeometrySegmentData& s) { return std::to_string(s.index) + "." + std::to_string(s.numTris); });
	}
	else
		os << " snp=0 sns=0 snt=0 sSG= ssn=0 sst=0 sAI= sRC= sssf=0 ssen=0 sSSE=";
}

uint32_t fbits(float f) {
	uint32_t u;
	std::memcpy(&u, &f, 4);
	return u;
}

void dump_skin(std::ostringstream& os, NifFile& nif, NiShape* shape) {
	auto skinInst = nif.GetHeader().GetBlock<NiSkinInstance>(shape->SkinInstanceRef());
	if (!skinInst)
		return;
	os << " K=1";
	auto sd = nif.GetHeader().GetBlock(skinInst->dataRef);
	if (sd) {
		os << " kSD=" << joinf(sd->bones, ";", [](const NiSkinData::BoneData& b) {
			return std::to_string(b.numVertices) + ":"
				   + joinf(
					   b.vertexWeights, "+", [](const SkinWeight& w) { return std::to_string(w.index) + "." + std::to_string(fbits(w.weight)); }, "-");
		});
	}
	auto sp = nif.GetHeader().GetBlock(skinInst->skinPartitionRef);
	if (sp) {
		os << " pnp=" << sp->numPartitions << " pnv=" << sp->numVertices << " pVD="
		   << joinf(sp->vertData, ",", [&](const BSVertexData& v) { return std::to_string(tokvd(v, sp->vertexDesc, false, false)); })
		   << " pmap=" << (sp->bMappedIndices ? 1 : 0) << " pTP=" << joinf(sp->triParts, ",", [](int x) { return std::to_string(x); });
		os << " pP=" << joinf(sp->partitions, "|", [](const NiSkinPartition::PartitionBlock& p) {
			std::ostringstream o;
			o << p.numVertices << ":" << p.numTriangles << ":" << p.numStrips << ":" << (p.hasVertexWeights ? 1 : 0) << ":"
			  << (p.hasBoneIndices ? 1 : 0) << ":" << (p.hasFaces ? 1 : 0) << ":" << nums(p.vertexMap, ".", "-") << ":"
			  << joinf(
					 p.vertexWeights, ".", [](const VertexWeight& w) { return std::to_string(fnv(&w, sizeof(w))); }, "-")
			  << ":"
			  << joinf(
					 p.boneIndices, ".", [](const BoneIndices& b) { return std::to_string(fnv(&b, sizeof(b))); }, "-")
			  << ":" << nums(p.stripLengths, ".", "-") << ":"
			  << joinf(
					 p.strips, "+", [](const std::vector<uint16_t>& s) { return nums(s, ".", "_"); }, "-")
			  << ":" << (p.triangles.empty() ? std::string("-") : tris_str(p.triangles, "+", '/')) << ":"
			  << (p.trueTriangles.empty() ? std::string("-") : tris_str(p.trueTriangles, "+", '/'));
			return o.str();
		});
	}
	auto dm = dynamic_cast<BSDismemberSkinInstance*>(skinInst);
	if (dm) {
		os << " kDM=";
		bool first = true;
		for (auto& pi : dm->partitions) {
			os << (first ? "" : ",") << pi.partID;
			first = false;
		}
	}
}

void dump_locked(std::ostringstream& os, NifFile& nif, NiShape* shape) {
	std::vector<std::string> lists;
	for (auto& ref : shape->extraDataRefs) {
		auto ied = nif.GetHeader().GetBlock<NiIntegersExtraData>(ref);
		if (ied && ied->name == "LOCKEDNORM") {
			std::vector<uint32_t> v(ied->integersData.begin(), ied->integersData.end());
			lists.push_back(nums(v, ".", "-"));
		}
	}
	os << " LN=" << joinf(lists, ";", [](const std::string& s) { return s; });
}

void dump_getseg(std::ostringstream& os, NiShape* shape) {
	auto sits = dynamic_cast<BSSubIndexTriShape*>(shape);
	if (!sits)
		return;
	// GetSegmentation reads dataRecords[arrayIndex] for every sub-segment
	size_t need = 0;
	for (auto& s : sits->segmentation.segments)
		need += 1 + s.subSegments.size();
	bool hasSubs = need > sits->segmentation.segments.size();
	if (hasSubs && sits->segmentation.subSegmentData.dataRecords.size() < need) {
		os << " gsI=SHORTRECORDS gsL=";
		return;
	}
	NifSegmentationInfo inf;
	std::vector<int> parts;
	NifFile::GetShapeSegments(shape, inf, parts);
	os << " gsI=" << joinf(inf.segs, ";", [](const NifSegmentInfo& s) {
		return std::to_string(s.partID) + ":"
			   + joinf(
				   s.subs, "+", [](const NifSubSegmentInfo& ss) {
					   uint32_t h = fnv(&ss.material, 4);
					   for (float f : ss.extraData)
						   h = fnv(&f, 4, h);
					   if (ss.material == 0xFFFFFFFFu && ss.extraData.empty())
						   h = 0;
					   return std::to_string(ss.partID) + "." + std::to_string(ss.userSlotID) + "." + std::to_string(h);
				   },
				   "-");
	});
	os << " gsL=" << joinf(parts, ",", [](int x) { return std::to_string(x); });
}

std::string dump_shape(NifFile& nif, NiShape* shape) {
	std::ostringstream os;
	os << "S";
	g_stream = nif.GetHeader().GetVersion().Stream();
	auto gd = nif.GetHeader().GetBlock<NiTriBasedGeomData>(shape->DataRef());
	if (gd)
		dump_gdata(os, gd);
	auto bs = dynamic_cast<BSTriShape*>(shape);
	if (bs)
		dump_bs(os, bs);
	dump_skin(os, nif, shape);
	dump_locked(os, nif, shape);
	dump_getseg(os, shape);
	// what the public accessors report
	std::vector<Triangle> tris;
	shape->GetTriangles(tris);
	os << " anv=" << shape->GetNumVertices() << " ant=" << shape->GetNumTriangles() << " aTR=" << tris_str(tris, ";", '.');
	return os.str();
}

// ---------------------------------------------------------------------------------------------
// construction

NiVersion version_of(const std::string& v) {
	if (v == "ob")
		return NiVersion::getOB();
	if (v == "fo3")
		return NiVersion::getFO3();
	if (v == "sk")
		return NiVersion::getSK();
	if (v == "sse")
		return NiVersion::getSSE();
	if (v == "fo4")
		return NiVersion::getFO4();
	if (v == "fo76")
		return NiVersion::getFO76();
	return NiVersion::getSSE();
}

std::vector<Triangle> parse_tris(const std::string& s) {
	std::vector<Triangle> out;
	for (auto& t : split(s, ';')) {
		auto p = split(t, '.');
		if (p.size() == 3)
			out.emplace_back(static_cast<uint16_t>(std::stoul(p[0])), static_cast<uint16_t>(std::stoul(p[1])),
							 static_cast<uint16_t>(std::stoul(p[2])));
	}
	return out;
}

std::vector<std::vector<uint16_t>> parse_steps(const std::string& s) {
	std::vector<std::vector<uint16_t>> out;
	for (auto& st : split(s, ';')) {
		std::vector<uint16_t> idx;
		for (auto& x : split(st, ','))
			if (!x.empty() && x != "-")
				idx.push_back(static_cast<uint16_t>(std::stoul(x)));
		out.push_back(idx);
	}
	return out;
}

NifSegmentationInfo parse_inf(const std::string& s) {
	// seg ';' seg, seg = id ':' sub '+' sub, sub = id '.' userSlot
	NifSegmentationInfo inf;
	for (auto& sg : split(s, ';')) {
		auto p = split(sg, ':');
		NifSegmentInfo si;
		si.partID = std::stoi(p[0]);
		if (p.size() > 1)
			for (auto& sb : split(p[1], '+')) {
				if (sb.empty() || sb == "-")
					continue;
				auto q = split(sb, '.');
				NifSubSegmentInfo ss;
				ss.partID = std::stoi(q[0]);
				ss.userSlotID = q.size() > 1 ? static_cast<uint32_t>(std::stoul(q[1])) : 0;
				ss.material = 1000u + static_cast<uint32_t>(ss.partID);
				ss.extraData = {static_cast<float>(ss.partID)};
				si.subs.push_back(ss);
			}
		inf.segs.push_back(si);
	}
	inf.ssfFile = "x.ssf";
	return inf;
}

// vertex i sits at (i, i % 7, i / 7): exactly representable in half precision for i < 2048
void make_verts(size_t nv, std::vector<Vector3>& verts, std::vector<Vector2>& uvs, std::vector<Vector3>& norms) {
	for (size_t i = 0; i < nv; ++i) {
		verts.emplace_back(static_cast<float>(i), static_cast<float>(i % 7), static_cast<float>(i / 7));
		uvs.emplace_back(static_cast<float>(i % 16) / 16.0f, static_cast<float>(i / 16) / 16.0f);
		Vector3 n(static_cast<float>(i % 3 == 0), static_cast<float>(i % 3 == 1), static_cast<float>(i % 3 == 2));
		norms.push_back(n);
	}
}

struct Built {
	NifFile nif;
	NiShape* shape = nullptr;
	std::string err;
};

// kind: auto (what CreateShapeFromData makes for the version), strips, dyn, lod
void build(Built& b, const Case& c) {
	std::string ver = c.get("ver");
	std::string kind = c.get("kind").empty() ? "auto" : c.get("kind");
	size_t nv = static_cast<size_t>(c.geti("nv"));
	auto tris = parse_tris(c.get("tris"));
	std::string attrs = c.get("attrs"); // subset of "nuc": normals, uvs, colours
	std::vector<Vector3> verts, norms;
	std::vector<Vector2> uvs;
	make_verts(nv, verts, uvs, norms);
	bool wantN = attrs.find('n') != std::string::npos, wantU = attrs.find('u') != std::string::npos,
		 wantC = attrs.find('c') != std::string::npos;
	NifFile& nif = b.nif;
	nif.Create(version_of(ver));
	auto root = nif.GetRootNode();
	if (kind == "auto") {
		b.shape = nif.CreateShapeFromData("S", &verts, &tris, wantU ? &uvs : nullptr, wantN ? &norms : nullptr);
	}
	else if (kind == "strips") {
		auto shp = std::make_unique<NiTriStrips>();
		shp->name.get() = "S";
		auto data = std::make_unique<NiTriStripsData>();
		data->Create(nif.GetHeader().GetVersion(), &verts, nullptr, wantU ? &uvs : nullptr, wantN ? &norms : nullptr);
		// strips are given as strips=a.b.c.d;e.f.g
		for (auto& st : split(c.get("strips"), ';')) {
			std::vector<uint16_t> pts;
			for (auto& x : split(st, '.'))
				if (!x.empty() && x != "-")
					pts.push_back(static_cast<uint16_t>(std::stoul(x)));
			uint16_t len = static_cast<uint16_t>(pts.size());
			data->stripsInfo.stripLengths.push_back(len);
			data->stripsInfo.points.push_back(pts);
		}
		data->stripsInfo.hasPoints = true;
		data->numTriangles = 0;
		for (auto& p : data->stripsInfo.points)
			if (p.size() > 2)
				data->numTriangles += static_cast<uint16_t>(p.size() - 2);
		shp->SetGeomData(data.get());
		int dataID = nif.GetHeader().AddBlock(std::move(data));
		shp->DataRef()->index = dataID;
		b.shape = shp.get();
		int id = nif.GetHeader().AddBlock(std::move(shp));
		root->childRefs.AddBlockRef(id);
	}
	else if (kind == "dyn" || kind == "lod") {
		std::unique_ptr<BSTriShape> shp;
		if (kind == "dyn")
			shp = std::make_unique<BSDynamicTriShape>();
		else
			shp = std::make_unique<BSMeshLODTriShape>();
		shp->Create(nif.GetHeader().GetVersion(), &verts, &tris, wantU ? &uvs : nullptr, wantN ? &norms : nullptr);
		shp->SetSkinned(false);
		shp->name.get() = "S";
		if (auto d = dynamic_cast<BSDynamicTriShape*>(shp.get()))
			d->CalcDynamicData();
		if (auto l = dynamic_cast<BSMeshLODTriShape*>(shp.get())) {
			l->lodSize0 = static_cast<uint32_t>(tris.size()) / 2;
			l->lodSize1 = static_cast<uint32_t>(tris.size()) - l->lodSize0;
			l->lodSize2 = 0;
		}
		b.shape = shp.get();
		int id = nif.GetHeader().AddBlock(std::move(shp));
		root->childRefs.AddBlockRef(id);
	}
	if (!b.shape) {
		b.err = "NOSHAPE";
		return;
	}
	NiShape* shape = b.shape;
	// 'U': a second texture-coordinate set (NiGeometryData keeps the number of sets in the low six bits of dataFlags
	// below stream version 34; later streams know one set only)
	if (attrs.find('U') != std::string::npos && wantU && nif.GetHeader().GetVersion().Stream() < 34) {
		if (auto gd = shape->GetGeomData()) {
			if (gd->uvSets.size() == 1) {
				std::vector<Vector2> second;
				for (size_t i = 0; i < gd->uvSets[0].size(); ++i)
					second.emplace_back(1.0f - gd->uvSets[0][i].u, 0.5f + 0.25f * static_cast<float>(i % 3));
				gd->uvSets.push_back(second);
				gd->dataFlags = static_cast<uint16_t>((gd->dataFlags & ~0x3F) | 2);
			}
		}
	}
	if (wantC) {
		std::vector<Color4> cols;
		for (size_t i = 0; i < nv; ++i)
			cols.emplace_back(static_cast<float>(i % 4) / 4.0f, static_cast<float>((i / 4) % 4) / 4.0f, static_cast<float>((i / 16) % 4) / 4.0f, 1.0f);
		nif.SetColorsForShape("S", cols);
	}
	// skinning: nb bones, weights "b:v.w+v.w;..." with w in quarters
	int nb = static_cast<int>(c.geti("nb"));
	if (nb > 0) {
		nif.CreateSkinning(shape);
		std::vector<int> ids;
		for (int i = 0; i < nb; ++i) {
			auto node = nif.AddNode("B" + std::to_string(i), MatTransform());
			ids.push_back(static_cast<int>(nif.GetBlockID(node)));
		}
		nif.SetShapeBoneIDList(shape, ids);
		std::vector<std::vector<uint8_t>> vb(nv);
		std::vector<std::vector<float>> vw(nv);
		int bi = 0;
		for (auto& bw : split(c.get("sw"), ';')) {
			std::unordered_map<uint16_t, float> m;
			std::vector<std::pair<uint16_t, float>> ordered;
			for (auto& e : split(bw, '+')) {
				if (e.empty() || e == "-")
					continue;
				auto q = split(e, '.');
				uint16_t v = static_cast<uint16_t>(std::stoul(q[0]));
				float w = static_cast<float>(std::stoul(q[1])) / 4.0f;
				m[v] = w;
				if (v < nv) {
					vb[v].push_back(static_cast<uint8_t>(bi));
					vw[v].push_back(w);
				}
			}
			nif.SetShapeBoneWeights("S", static_cast<uint32_t>(bi), m);
			// SetShapeBoneWeights iterates an unordered_map: fix the order so the dump is portable
			auto skinInst = nif.GetHeader().GetBlock<NiSkinInstance>(shape->SkinInstanceRef());
			if (skinInst) {
				auto sd = nif.GetHeader().GetBlock(skinInst->dataRef);
				if (sd && static_cast<size_t>(bi) < sd->bones.size())
					std::sort(sd->bones[bi].vertexWeights.begin(), sd->bones[bi].vertexWeights.end(),
							  [](const SkinWeight& a, const SkinWeight& b2) { return a.index < b2.index; });
			}
			++bi;
		}
		if (dynamic_cast<BSTriShape*>(shape))
			for (size_t v = 0; v < nv; ++v)
				if (!vw[v].empty())
					nif.SetShapeVertWeights("S", static_cast<uint16_t>(v), vb[v], vw[v]);
		// partitions: pm=0 default partition only; 1 SetShapePartitions(tp); 2 ... + UpdateSkinPartitions
		int pm = static_cast<int>(c.geti("pm"));
		std::vector<Triangle> shapeTris;
		shape->GetTriangles(shapeTris);
		if (pm >= 1 && !shapeTris.empty()) {
			auto tp = get_list<int>(c, "tp");
			tp.resize(shapeTris.size(), 0);
			int np = 0;
			for (int x : tp)
				np = std::max(np, x + 1);
			NiVector<BSDismemberSkinInstance::PartitionInfo> infos;
			for (int i = 0; i < np; ++i) {
				BSDismemberSkinInstance::PartitionInfo pi;
				pi.flags = PF_EDITOR_VISIBLE;
				pi.partID = static_cast<uint16_t>(100 + i);
				infos.push_back(pi);
			}
			nif.SetShapePartitions(shape, infos, tp);
			if (pm >= 2)
				nif.UpdateSkinPartitions(shape);
		}
	}
	// LOCKEDNORM lists: ln=a.b.c;d.e
	for (auto& l : split(c.get("ln"), ';')) {
		auto ied = std::make_unique<NiIntegersExtraData>();
		ied->name.get() = "LOCKEDNORM";
		for (auto& x : split(l, '.'))
			if (!x.empty() && x != "-") {
				uint32_t v = static_cast<uint32_t>(std::stoul(x));
				ied->integersData.push_back(v);
			}
		nif.AssignExtraData(shape, std::move(ied));
	}
	// segmentation (FO4 / FO76): inf + labels (the seg op applies it itself, after a first dump)
	if (!c.get("inf").empty() && c.op != "seg") {
		auto inf = parse_inf(c.get("inf"));
		auto labels = get_list<int>(c, "labels");
		NifFile::SetShapeSegments(shape, inf, labels);
	}
	// SSE-style segment table on a BSSubIndexTriShape: sse=index.num;index.num
	if (!c.get("sse").empty()) {
		if (auto sits = dynamic_cast<BSSubIndexTriShape*>(shape)) {
			std::vector<BSGeometrySegmentData> sd;
			for (auto& s : split(c.get("sse"), ';')) {
				auto q = split(s, '.');
				BSGeometrySegmentData d;
				d.index = static_cast<uint32_t>(std::stoul(q[0]));
				d.numTris = static_cast<uint32_t>(std::stoul(q[1]));
				sd.push_back(d);
			}
			sits->SetSegments(sd);
		}
	}
	// raw FO4-style segment table (no sub-segments) written straight into the block, as a loaded
	// file may carry it: fseg=startIndex.numPrimitives;startIndex.numPrimitives
	if (!c.get("fseg").empty()) {
		if (auto sits = dynamic_cast<BSSubIndexTriShape*>(shape)) {
			auto& sn = sits->segmentation;
			sn.segments.clear();
			for (auto& s : split(c.get("fseg"), ';')) {
				auto q = split(s, '.');
				BSSubIndexTriShape::BSSITSSegment g;
				g.startIndex = static_cast<uint32_t>(std::stoul(q[0]));
				g.numPrimitives = static_cast<uint32_t>(std::stoul(q[1]));
				sn.segments.push_back(g);
			}
			sn.numPrimitives = shape->GetNumTriangles();
			sn.numSegments = static_cast<uint32_t>(sn.segments.size());
			sn.numTotalSegments = sn.numSegments;
			sn.subSegmentData = BSSubIndexTriShape::BSSITSSubSegmentData();
		}
	}
}

NiShape* nth_shape(NifFile& nif, size_t k) {
	auto shapes = nif.GetShapes();
	return k < shapes.size() ? shapes[k] : nullptr;
}

// runs the deletion steps, then save + reload; prints  I=<S0> | <S1> ... | R rc=<rc> <S>
// tokens the dump will show for the sub-segments of an info (material, extraData) and its ssf name
std::string inf_tokens(const NifSegmentationInfo& inf) {
	std::ostringstream os;
	os << "dtok=";
	bool first = true;
	for (auto& s : inf.segs)
		for (auto& ss : s.subs) {
			uint32_t h = fnv(&ss.material, 4);
			for (float f : ss.extraData)
				h = fnv(&f, 4, h);
			if (ss.material == 0xFFFFFFFFu && ss.extraData.empty())
				h = 0;
			os << (first ? "" : ",") << ss.partID << "." << h;
			first = false;
		}
	os << " ssf=" << (inf.ssfFile.empty() ? 0u : fnv(inf.ssfFile.data(), inf.ssfFile.size()));
	return os.str();
}

std::string run_steps(NifFile& nif, NiShape* shape, const Case& c) {
	std::ostringstream out;
	if (c.op == "seg" || (c.op == "file" && !c.get("inf").empty())) {
		auto inf = parse_inf(c.get("inf"));
		auto labels = get_list<int>(c, "labels");
		if (c.op == "file")
			labels.resize(shape->GetNumTriangles(), labels.empty() ? -1 : labels.back());
		out << "PRE " << inf_tokens(inf) << " labels=" << joinf(labels, ",", [](int x) { return std::to_string(x); }) << " "
			<< dump_shape(nif, shape) << " | ";
		NifFile::SetShapeSegments(shape, inf, labels);
	}
	size_t shapeIndex = 0;
	{
		auto shapes = nif.GetShapes();
		for (size_t i = 0; i < shapes.size(); ++i)
			if (shapes[i] == shape)
				shapeIndex = i;
	}
	out << dump_shape(nif, shape);
	for (auto& idx : parse_steps(c.get("steps"))) {
		bool r = nif.DeleteVertsForShape(shape, idx);
		out << " | ret=" << (r ? 1 : 0) << " " << dump_shape(nif, shape);
	}
	if (c.geti("save")) {
		std::stringstream ss(std::ios::in | std::ios::out | std::ios::binary);
		NifSaveOptions so;
		so.optimize = false;
		so.sortBlocks = false;
		int src = nif.Save(ss, so);
		// the model in memory after Save (FinalizeData moves data around)
		out << " | SV rc=" << src << " " << dump_shape(nif, shape);
		ss.seekg(0);
		NifFile re;
		int lrc = re.Load(ss);
		NiShape* rs = lrc == 0 ? nth_shape(re, shapeIndex) : nullptr;
		out << " | RL rc=" << lrc << " " << (rs ? dump_shape(re, rs) : std::string("S"));
	}
	return out.str();
}

int oracle_geom(int, char**) {
	const char* sdir = std::getenv("VERIF_SAMPLES");
	std::string samples = sdir ? sdir : "/repo/tests/input";
	std::string line;
	while (std::getline(std::cin, line)) {
		if (line.empty())
			continue;
		Case c = parse_case(line);
		if (c.op == "del" || c.op == "seg") {
			Built b;
			build(b, c);
			if (!b.err.empty()) {
				std::cout << "I=" << b.err << "\n";
				continue;
			}
			std::cout << "I=" << run_steps(b.nif, b.shape, c) << "\n";
		}
		else if (c.op == "file") {
			NifFile nif;
			int rc = nif.Load(samples + "/" + c.get("name"));
			NiShape* shape = rc == 0 ? nth_shape(nif, static_cast<size_t>(c.geti("shape"))) : nullptr;
			if (!shape) {
				std::cout << "I=NOSHAPE rc=" << rc << "\n";
				continue;
			}
			std::cout << "I=" << run_steps(nif, shape, c) << "\n";
		}
		else if (c.op == "shapes") {
			// lists the shapes of a sample: "I=<n> <block name>:<nv>:<nt> ..."
			NifFile nif;
			int rc = nif.Load(samples + "/" + c.get("name"));
			std::ostringstream os;
			auto shapes = nif.GetShapes();
			os << "I=" << (rc == 0 ? shapes.size() : 0);
			for (auto s : shapes)
				os << " " << s->GetBlockName() << ":" << s->GetNumVertices() << ":" << s->GetNumTriangles();
			std::cout << os.str() << "\n";
		}
		else
			std::cout << "I=?\n";
		std::cout.flush();
	}
	return 0;
}

Family reg("geom", oracle_geom);

} // namespace
