// nifly_oracle path: texture path clean-up (NifFile::TrimTexturePaths, called explicitly and through
// Load -> PrepareData) observed through the public API, one line per case.
//
// case lines:
//   clean v=<OB|FO3|SK|SSE|FO4|FO76|SF|SPECIAL> kind=<set|eff|src> slot=<n> terrain=<0|1> p=<hex>
//       set the slot to p, TrimTexturePaths(), read back (I), TrimTexturePaths() again, read back (J)
//   load  (same keys)
//       set the slot to p, Save to memory, Load (terrain flag through NifLoadOptions), read back (I),
//       TrimTexturePaths() on the loaded file, read back (J)
// output:  I=<hex> J=<hex>     (or I=EXC:<what> when an exception escapes, I=ERR:<why> for harness trouble)
//
// kind: set = BSShaderTextureSet entry of the shape's lighting shader, eff = BSEffectShaderProperty
// texture fields, src = NiSourceTexture reached through NiTexturingProperty.
// The terrain flag is private and only settable through Load: terrain files are built, saved and
// re-loaded with NifLoadOptions::isTerrain before the slot is written.
#include "oracle.hpp"
#include "NifFile.hpp"

#include <memory>
#include <sstream>

using namespace nifly;

namespace {

std::string unhex(const std::string& h) {
	std::string s;
	auto val = [](char c) -> int {
		if (c >= '0' && c <= '9')
			return c - '0';
		if (c >= 'a' && c <= 'f')
			return c - 'a' + 10;
		if (c >= 'A' && c <= 'F')
			return c - 'A' + 10;
		return 0;
	};
	for (size_t i = 0; i + 1 < h.size(); i += 2)
		s.push_back(static_cast<char>(val(h[i]) * 16 + val(h[i + 1])));
	return s;
}

std::string hex(const std::string& s) {
	static const char* d = "0123456789abcdef";
	std::string h;
	h.reserve(s.size() * 2);
	for (unsigned char c : s) {
		h.push_back(d[c >> 4]);
		h.push_back(d[c & 15]);
	}
	return h;
}

bool version_of(const std::string& v, NiVersion& out) {
	if (v == "OB")
		out = NiVersion::getOB();
	else if (v == "FO3")
		out = NiVersion::getFO3();
	else if (v == "SK")
		out = NiVersion::getSK();
	else if (v == "SSE")
		out = NiVersion::getSSE();
	else if (v == "FO4")
		out = NiVersion::getFO4();
	else if (v == "FO76")
		out = NiVersion::getFO76();
	else if (v == "SF")
		out = NiVersion::getSF();
	else if (v == "SPECIAL")
		out = NiVersion(NiFileVersion::V10_0_1_0, 0, 0);
	else
		return false;
	return true;
}

// one shape carrying the requested kind of texture slot
bool build(NifFile& nif, const NiVersion& ver, const std::string& kind, std::string& why) {
	nif.Create(ver);
	std::vector<Vector3> verts{Vector3(0, 0, 0), Vector3(1, 0, 0), Vector3(0, 1, 0)};
	std::vector<Triangle> tris{Triangle(0, 1, 2)};
	std::vector<Vector2> uvs{Vector2(0, 0), Vector2(1, 0), Vector2(0, 1)};
	std::vector<Vector3> norms{Vector3(0, 0, 1), Vector3(0, 0, 1), Vector3(0, 0, 1)};
	NiShape* shape = nif.CreateShapeFromData("s", &verts, &tris, &uvs, &norms);
	if (!shape) {
		why = "no-shape";
		return false;
	}
	NiHeader& hdr = nif.GetHeader();
	if (kind == "set") {
		auto shader = nif.GetShader(shape);
		if (!shader || !shader->HasTextureSet()) {
			why = "no-texture-set";
			return false;
		}
	}
	else if (kind == "eff") {
		if (!shape->ShaderPropertyRef()) {
			why = "no-shader-ref";
			return false;
		}
		auto eff = std::make_unique<BSEffectShaderProperty>();
		uint32_t id = hdr.AddBlock(std::move(eff));
		shape->ShaderPropertyRef()->index = id;
		shape->propertyRefs.Clear();
	}
	else if (kind == "src") {
		if (shape->ShaderPropertyRef())
			shape->ShaderPropertyRef()->Clear();
		shape->propertyRefs.Clear();
		auto tp = std::make_unique<NiTexturingProperty>();
		TexDesc* descs[10] = {&tp->baseTex, &tp->darkTex, &tp->detailTex, &tp->glossTex, &tp->glowTex,
							  &tp->bumpTex, &tp->decalTex0, &tp->decalTex1, &tp->decalTex2, &tp->decalTex3};
		for (auto* d : descs) {
			auto st = std::make_unique<NiSourceTexture>();
			d->sourceRef.index = hdr.AddBlock(std::move(st));
		}
		// all slots present, so that the source textures stay referenced when the file is saved
		tp->hasBaseTex = tp->hasDarkTex = tp->hasDetailTex = tp->hasGlossTex = tp->hasGlowTex = tp->hasBumpTex = true;
		tp->hasDecalTex0 = tp->hasDecalTex1 = tp->hasDecalTex2 = tp->hasDecalTex3 = true;
		tp->textureCount = 10;
		uint32_t id = hdr.AddBlock(std::move(tp));
		shape->propertyRefs.AddBlockRef(id);
	}
	else {
		why = "bad-kind";
		return false;
	}
	return true;
}

bool reload(NifFile& nif, bool terrain, std::string& why) {
	std::stringstream ss(std::ios::in | std::ios::out | std::ios::binary);
	if (nif.Save(ss) != 0) {
		why = "save-failed";
		return false;
	}
	ss.seekg(0);
	NifLoadOptions opts;
	opts.isTerrain = terrain;
	NifFile loaded;
	if (loaded.Load(ss, opts) != 0) {
		why = "load-failed";
		return false;
	}
	nif.CopyFrom(loaded);
	if (nif.IsTerrain() != terrain) {
		why = "terrain-flag-lost";
		return false;
	}
	return true;
}

NiShape* the_shape(NifFile& nif) {
	auto shapes = nif.GetShapes();
	return shapes.empty() ? nullptr : shapes.front();
}

struct Cached {
	std::unique_ptr<NifFile> nif;
};

std::string run_case(const Case& c, std::map<std::string, Cached>& cache) {
	NiVersion ver;
	if (!version_of(c.get("v"), ver))
		return "I=ERR:bad-version";
	const std::string kind = c.get("kind");
	const bool terrain = c.geti("terrain") == 1;
	const uint32_t slot = static_cast<uint32_t>(c.geti("slot"));
	std::string p = unhex(c.get("p"));
	std::string why;

	if (c.op == "clean") {
		std::string key = c.get("v") + "/" + kind + "/" + (terrain ? "1" : "0");
		auto it = cache.find(key);
		if (it == cache.end()) {
			Cached e;
			e.nif = std::make_unique<NifFile>();
			if (!build(*e.nif, ver, kind, why))
				return "I=ERR:" + why;
			if (terrain && !reload(*e.nif, true, why))
				return "I=ERR:" + why;
			it = cache.emplace(key, std::move(e)).first;
		}
		NifFile& nif = *it->second.nif;
		NiShape* shape = the_shape(nif);
		if (!shape)
			return "I=ERR:no-shape-after-build";
		try {
			std::string in = p;
			nif.SetTextureSlot(shape, in, slot);
			std::string chk;
			nif.GetTextureSlot(shape, chk, slot);
			if (chk != p)
				return "I=ERR:slot-not-settable";
			nif.TrimTexturePaths();
			std::string i1, i2;
			nif.GetTextureSlot(shape, i1, slot);
			nif.TrimTexturePaths();
			nif.GetTextureSlot(shape, i2, slot);
			return "I=" + hex(i1) + " J=" + hex(i2);
		}
		catch (const std::exception& e) {
			cache.erase(it);
			std::string w = e.what();
			for (auto& ch : w)
				if (ch == ' ')
					ch = '_';
			return "I=EXC:" + w;
		}
	}
	else if (c.op == "load") {
		try {
			NifFile nif;
			if (!build(nif, ver, kind, why))
				return "I=ERR:" + why;
			NiShape* shape = the_shape(nif);
			std::string in = p;
			nif.SetTextureSlot(shape, in, slot);
			if (!reload(nif, terrain, why))
				return "I=ERR:" + why;
			shape = the_shape(nif);
			if (!shape)
				return "I=ERR:no-shape-after-load";
			std::string i1, i2;
			nif.GetTextureSlot(shape, i1, slot);
			nif.TrimTexturePaths();
			nif.GetTextureSlot(shape, i2, slot);
			return "I=" + hex(i1) + " J=" + hex(i2);
		}
		catch (const std::exception& e) {
			std::string w = e.what();
			for (auto& ch : w)
				if (ch == ' ')
					ch = '_';
			return "I=EXC:" + w;
		}
	}
	return "I=ERR:bad-op";
}

int oracle_path(int, char**) {
	std::map<std::string, Cached> cache;
	std::string line;
	while (std::getline(std::cin, line)) {
		if (line.empty())
			continue;
		Case c = parse_case(line);
		std::cout << run_case(c, cache) << "\n";
		std::cout.flush();
	}
	return 0;
}

Family reg("path", oracle_path);

} // namespace
