// nifly_oracle sorter: the block sorter, explicit shape ordering, pruning and the default save on
// sample files (optionally edited through the API first) and on graphs synthesised from real block
// classes. Dumps the abstract graph the sorter sees (one bit per class test it performs, the
// reference fields each routine reads, GetChildIndices, GetChildRefs / GetPtrs, ghost identities)
// before and after the operation, plus a digest of every block's written bytes with the reference
// and string-index positions blanked.
#include <algorithm>
#include <fstream>
#include <functional>
#include <set>
#include <sstream>
#define private public
#define protected public
#include "NifFile.hpp"
#include "bhk.hpp"
#include "Animation.hpp"
#include "Skin.hpp"
#include "Shaders.hpp"
#include "ExtraData.hpp"
#include "Nodes.hpp"
#include "Geometry.hpp"
#undef private
#undef protected
#include "oracle.hpp"
#include "graphdump.hpp"

using namespace nifly;

namespace {

UidMap s_uids;

std::string hexs(const std::string& s) {
	static const char* d = "0123456789abcdef";
	std::string o = "h";
	for (unsigned char c : s) {
		o.push_back(d[c >> 4]);
		o.push_back(d[c & 15]);
	}
	return o;
}

std::string unhex(const std::string& h) {
	std::string o;
	for (size_t i = 1; i + 1 < h.size(); i += 2)
		o.push_back(static_cast<char>(std::stoi(h.substr(i, 2), nullptr, 16)));
	return o;
}

std::string rs(uint32_t r) {
	return r == NIF_NPOS ? std::string("x") : std::to_string(r);
}

std::string rl(const std::vector<uint32_t>& v) {
	std::string o;
	for (size_t i = 0; i < v.size(); ++i)
		o += (i ? "." : "") + rs(v[i]);
	return o;
}

uint32_t pr(const NiRef* r) {
	return r ? r->index : NIF_NPOS;
}

template<typename A>
std::vector<uint32_t> idx(A& arr) {
	std::vector<uint32_t> v;
	arr.GetIndices(v);
	return v;
}

// one bit per class test of the sorter (same tests: dynamic_cast / HasType)
unsigned kind_of(NiObject* o) {
	unsigned k = 0;
	if (dynamic_cast<NiCollisionObject*>(o)) k |= 1u << 0;
	if (dynamic_cast<NiNode*>(o)) k |= 1u << 1;
	if (o->HasType<BSOrderedNode>()) k |= 1u << 2;
	if (dynamic_cast<NiShape*>(o)) k |= 1u << 3;
	if (dynamic_cast<NiTimeController*>(o)) k |= 1u << 4;
	if (dynamic_cast<NiShader*>(o)) k |= 1u << 5;
	if (dynamic_cast<NiControllerSequence*>(o)) k |= 1u << 6;
	if (dynamic_cast<NiInterpolator*>(o)) k |= 1u << 7;
	if (dynamic_cast<BSAnimNotes*>(o)) k |= 1u << 8;
	if (dynamic_cast<NiSkinInstance*>(o)) k |= 1u << 9;
	if (dynamic_cast<BSSkinInstance*>(o)) k |= 1u << 10;
	if (dynamic_cast<bhkConstraint*>(o)) k |= 1u << 11;
	if (dynamic_cast<bhkBallSocketConstraintChain*>(o)) k |= 1u << 12;
	if (o->HasType<bhkRefObject>()) k |= 1u << 13;
	return k;
}

std::string dump_block(NiObject* o) {
	std::ostringstream os;
	std::vector<uint32_t> none;
	os << s_uids.get(o) << "," << o->GetBlockName() << ",";
	auto net = dynamic_cast<NiObjectNET*>(o);
	os << (net ? hexs(net->name.get()) : std::string("-")) << "," << kind_of(o) << ",";
	os << (net ? rl(idx(net->extraDataRefs)) : "") << "," << rs(net ? net->controllerRef.index : NIF_NPOS) << ",";
	auto av = dynamic_cast<NiAVObject*>(o);
	os << (av ? rl(idx(av->propertyRefs)) : "") << "," << rs(av ? av->collisionRef.index : NIF_NPOS) << ",";
	auto node = dynamic_cast<NiNode*>(o);
	std::vector<uint32_t> children = node ? idx(node->childRefs) : none;
	os << rl(children) << ",";
	auto shape = dynamic_cast<NiShape*>(o);
	os << rs(shape ? pr(shape->DataRef()) : NIF_NPOS) << "," << rs(shape ? pr(shape->SkinInstanceRef()) : NIF_NPOS) << ","
	   << rs(shape ? pr(shape->ShaderPropertyRef()) : NIF_NPOS) << "," << rs(shape ? pr(shape->AlphaPropertyRef()) : NIF_NPOS) << ",";
	auto nsk = dynamic_cast<NiSkinInstance*>(o);
	auto bsk = dynamic_cast<BSSkinInstance*>(o);
	os << rs(nsk ? nsk->dataRef.index : NIF_NPOS) << "," << rs(nsk ? nsk->skinPartitionRef.index : NIF_NPOS) << ","
	   << rs(bsk ? bsk->dataRef.index : NIF_NPOS) << ",";
	auto shader = dynamic_cast<NiShader*>(o);
	os << rs(shader ? pr(shader->TextureSetRef()) : NIF_NPOS) << ",";
	auto seq = dynamic_cast<NiControllerSequence*>(o);
	std::vector<uint32_t> cb;
	if (seq)
		for (auto& l : seq->controlledBlocks) {
			cb.push_back(l.interpolatorRef.index);
			cb.push_back(l.controllerRef.index);
		}
	os << rl(cb) << "," << rs(seq ? seq->textKeyRef.index : NIF_NPOS) << "," << rs(seq ? seq->animNotesRef.index : NIF_NPOS) << ","
	   << (seq ? rl(idx(seq->animNotesRefs)) : "") << ",";
	auto notes = dynamic_cast<BSAnimNotes*>(o);
	os << (notes ? rl(idx(notes->animNoteRefs)) : "") << ",";
	auto con = dynamic_cast<bhkConstraint*>(o);
	auto chain = dynamic_cast<bhkBallSocketConstraintChain*>(o);
	os << (con ? rl(idx(con->entityRefs)) : "") << "," << (chain ? rl(idx(chain->chainedEntityRefs)) : "") << ","
	   << rs(chain ? chain->entityARef.index : NIF_NPOS) << "," << rs(chain ? chain->entityBRef.index : NIF_NPOS) << ",";
	// GetChildIndices, split around the child array of a node
	std::vector<uint32_t> kids;
	o->GetChildIndices(kids);
	std::vector<uint32_t> kpre = kids, kpost;
	if (node) {
		std::vector<uint32_t> p;
		node->NiAVObject::GetChildIndices(p);
		bool ok = p.size() + children.size() <= kids.size() && std::equal(p.begin(), p.end(), kids.begin())
				  && std::equal(children.begin(), children.end(), kids.begin() + p.size());
		if (!ok)
			return "KIDSLAYOUT";
		kpre = p;
		kpost.assign(kids.begin() + p.size() + children.size(), kids.end());
	}
	os << rl(kpre) << "," << rl(kpost) << ",";
	std::set<NiRef*> refs, cslots, ptrs;
	o->GetChildRefs(refs);
	if (node)
		node->childRefs.GetIndexPtrs(cslots);
	std::vector<uint32_t> cr, pv;
	for (auto r : refs)
		if (!cslots.count(r))
			cr.push_back(r->index);
	o->GetPtrs(ptrs);
	for (auto r : ptrs)
		pv.push_back(r->index);
	os << rl(cr) << "," << rl(pv);
	return os.str();
}

// ---- written bytes of every block with reference / string-index positions blanked ----
std::ostringstream* s_cur = nullptr;
std::vector<std::streamoff>* s_pos = nullptr;
std::vector<std::string>* s_strs = nullptr;
void raw_on_ref(int, void*) {
	if (s_cur)
		s_pos->push_back(s_cur->tellp());
}
void raw_on_sref(int, void* r) {
	if (s_cur) {
		s_pos->push_back(s_cur->tellp());
		s_strs->push_back(static_cast<NiStringRef*>(r)->get());
	}
}

// uid:digest per block. Put() drops empty entries of reference arrays in place, so this is only
// ever called on a second instance of the model that is not the one being dumped.
std::string raw_digests(NifFile& copy, UidMap& uids) {
	copy.hdr.UpdateHeaderStrings(copy.hasUnknown);
	std::string out;
	niVerifHooks().onRef = raw_on_ref;
	niVerifHooks().onStringRef = raw_on_sref;
	for (size_t i = 0; i < copy.blocks.size(); ++i) {
		std::ostringstream ss;
		std::vector<std::streamoff> pos;
		std::vector<std::string> strs;
		s_cur = &ss;
		s_pos = &pos;
		s_strs = &strs;
		NiOStream stream(&ss, &copy.hdr);
		copy.blocks[i]->Put(stream);
		s_cur = nullptr;
		std::string bytes = ss.str();
		std::sort(pos.begin(), pos.end());
		// string positions of old versions hold an inline length, equal before and after anyway
		for (auto p : pos)
			for (size_t k = 0; k < 4 && static_cast<size_t>(p) + k < bytes.size(); ++k)
				bytes[p + k] = 0;
		uint64_t h = 1469598103934665603ULL;
		auto mix = [&](const std::string& s) {
			for (unsigned char c : s) {
				h ^= c;
				h *= 1099511628211ULL;
			}
			h ^= 0xff;
			h *= 1099511628211ULL;
		};
		mix(bytes);
		for (auto& s : strs)
			mix(s);
		for (auto p : pos)
			mix(std::to_string(p));
		char buf[64];
		std::snprintf(buf, sizeof buf, "%u:%016llx.%zu", uids.get(copy.blocks[i].get()), static_cast<unsigned long long>(h), pos.size());
		out += (i ? "," : "") + std::string(buf);
	}
	niVerifHooks().onRef = nullptr;
	niVerifHooks().onStringRef = nullptr;
	return out;
}

std::string dump_model(NifFile& nif) {
	std::ostringstream os;
	auto v = nif.hdr.GetVersion();
	os << "ob=" << ((v.IsOB() || v.IsFO3()) ? 1 : 0) << " unk=" << (nif.hasUnknown ? 1 : 0) << " n=" << nif.hdr.GetNumBlocks()
	   << " blocks=";
	for (size_t i = 0; i < nif.blocks.size(); ++i)
		os << (i ? "+" : "") << (nif.blocks[i] ? dump_block(nif.blocks[i].get()) : std::string("NULL"));
	return os.str();
}

std::vector<uint32_t> gen_perm_s(uint32_t n, uint64_t x) {
	std::vector<uint32_t> p(n);
	for (uint32_t i = 0; i < n; ++i)
		p[i] = i;
	for (uint32_t i = n; i-- > 1;) {
		x = (x * 1103515245ULL + 12345ULL) % 2147483648ULL;
		uint32_t j = static_cast<uint32_t>(x % (i + 1));
		std::swap(p[i], p[j]);
	}
	return p;
}

// ---- edits through the API, applied before the first dump ----
// P<seed> random SetBlockOrder | W<k> swap block 0 with block k | LN / LX / LB loose node / extra data / box shape
// AN<p> AddNode under the p-th node | CS<k>=<hex> CloneShape | RN<k>=<hex> rename the k-th shape
// DC<k>.<j> the k-th node lists its j-th child once more | EC<k> empty child ref on the k-th node
// MV<k>.<j> SetParentNode(k-th shape, j-th node) | RC<k>.<j> the k-th node additionally lists the j-th block that is not a node
// XD<k> extra data on the k-th node | UK<0|1> hasUnknown
void apply_edit(NifFile& nif, const std::string& e) {
	auto num = [&](const std::string& s) { return s.empty() ? 0ul : std::stoul(s); };
	std::string k = e.substr(0, 2);
	std::string a = e.size() > 2 ? e.substr(2) : "";
	if (e[0] == 'P' || e[0] == 'W') {
		k = e.substr(0, 1);
		a = e.substr(1);
	}
	uint32_t n = nif.hdr.GetNumBlocks();
	auto nodes = nif.GetNodes();
	auto shapes = nif.GetShapes();
	auto two = [&](size_t& x, size_t& y) {
		auto p = a.find('.');
		x = num(a.substr(0, p));
		y = p == std::string::npos ? 0 : num(a.substr(p + 1));
	};
	if (k == "P") {
		if (n) {
			auto p = gen_perm_s(n, num(a));
			nif.hdr.SetBlockOrder(p);
		}
	}
	else if (k == "W") {
		if (n > 1) {
			std::vector<uint32_t> p(n);
			for (uint32_t i = 0; i < n; ++i)
				p[i] = i;
			uint32_t j = static_cast<uint32_t>(num(a) % n);
			std::swap(p[0], p[j]);
			nif.hdr.SetBlockOrder(p);
		}
	}
	else if (k == "LN") {
		auto b = std::make_unique<NiNode>();
		b->name.get() = "loose";
		nif.hdr.AddBlock(std::move(b));
	}
	else if (k == "LX") {
		auto b = std::make_unique<NiStringExtraData>();
		b->name.get() = "loose";
		nif.hdr.AddBlock(std::move(b));
	}
	else if (k == "LB")
		nif.hdr.AddBlock(std::make_unique<bhkBoxShape>());
	else if (k == "LF") {
		// a loose block IN FRONT of the root: added at the end, then swapped with block 0 (the root moves to the
		// last index). Pruning has to delete block 0 and must keep track of the root that moves down by one.
		auto b = std::make_unique<NiStringExtraData>();
		b->name.get() = "loosefront";
		nif.hdr.AddBlock(std::move(b));
		uint32_t n2 = nif.hdr.GetNumBlocks();
		if (n2 > 1) {
			std::vector<uint32_t> p(n2);
			for (uint32_t i = 0; i < n2; ++i)
				p[i] = i;
			std::swap(p[0], p[n2 - 1]);
			nif.hdr.SetBlockOrder(p);
		}
	}
	else if (k == "AN") {
		if (!nodes.empty())
			nif.AddNode("added" + a, MatTransform(), nodes[num(a) % nodes.size()]);
	}
	else if (k == "CS") {
		auto p = a.find('=');
		if (!shapes.empty())
			nif.CloneShape(shapes[num(a.substr(0, p)) % shapes.size()], unhex(a.substr(p + 1)));
	}
	else if (k == "RN") {
		auto p = a.find('=');
		if (!shapes.empty())
			shapes[num(a.substr(0, p)) % shapes.size()]->name.get() = unhex(a.substr(p + 1));
	}
	else if (k == "DC") {
		size_t x, y;
		two(x, y);
		if (!nodes.empty()) {
			auto nd = nodes[x % nodes.size()];
			if (nd->childRefs.GetSize() > 0)
				nd->childRefs.AddBlockRef(nd->childRefs.GetBlockRef(static_cast<uint32_t>(y % nd->childRefs.GetSize())));
		}
	}
	else if (k == "EC") {
		if (!nodes.empty())
			nodes[num(a) % nodes.size()]->childRefs.AddBlockRef(NIF_NPOS);
	}
	else if (k == "MV") {
		size_t x, y;
		two(x, y);
		if (!nodes.empty() && !shapes.empty())
			nif.SetParentNode(shapes[x % shapes.size()], nodes[y % nodes.size()]);
	}
	else if (k == "RC") {
		size_t x, y;
		two(x, y);
		// only blocks that are not nodes: a node cycle would send other API calls of a later edit into endless recursion
		std::vector<uint32_t> cand;
		for (uint32_t i = 0; i < n; ++i)
			if (!dynamic_cast<NiNode*>(nif.blocks[i].get()))
				cand.push_back(i);
		if (!nodes.empty() && !cand.empty())
			nodes[x % nodes.size()]->childRefs.AddBlockRef(cand[y % cand.size()]);
	}
	else if (k == "XD") {
		if (!nodes.empty()) {
			auto b = std::make_unique<NiStringExtraData>();
			b->name.get() = "xd" + a;
			nif.AssignExtraData(nodes[num(a) % nodes.size()], std::move(b));
		}
	}
	else if (k == "UK")
		nif.hasUnknown = num(a) != 0;
}

// ---- graphs of real classes: <CL>[:<field>=<refs .-separated>]* joined by '+' ----
std::unique_ptr<NiObject> make_class(const std::string& c) {
	if (c == "ND") return std::make_unique<NiNode>();
	if (c == "ON") return std::make_unique<BSOrderedNode>();
	if (c == "TS") return std::make_unique<NiTriShape>();
	if (c == "BT") return std::make_unique<BSTriShape>();
	if (c == "TD") return std::make_unique<NiTriShapeData>();
	if (c == "SK") return std::make_unique<NiSkinInstance>();
	if (c == "BK") return std::make_unique<BSSkinInstance>();
	if (c == "SD") return std::make_unique<NiSkinData>();
	if (c == "SP") return std::make_unique<NiSkinPartition>();
	if (c == "LS") return std::make_unique<BSLightingShaderProperty>();
	if (c == "TX") return std::make_unique<BSShaderTextureSet>();
	if (c == "AP") return std::make_unique<NiAlphaProperty>();
	if (c == "XD") return std::make_unique<NiStringExtraData>();
	if (c == "CM") return std::make_unique<NiControllerManager>();
	if (c == "SQ") return std::make_unique<NiControllerSequence>();
	if (c == "TK") return std::make_unique<NiTextKeyExtraData>();
	if (c == "AN") return std::make_unique<BSAnimNotes>();
	if (c == "NT") return std::make_unique<BSAnimNote>();
	if (c == "IP") return std::make_unique<NiTransformInterpolator>();
	if (c == "TC") return std::make_unique<NiTransformController>();
	if (c == "CO") return std::make_unique<bhkCollisionObject>();
	if (c == "RB") return std::make_unique<bhkRigidBody>();
	if (c == "BX") return std::make_unique<bhkBoxShape>();
	if (c == "LH") return std::make_unique<bhkListShape>();
	if (c == "HC") return std::make_unique<bhkHingeConstraint>();
	if (c == "CH") return std::make_unique<bhkBallSocketConstraintChain>();
	return std::make_unique<NiStringExtraData>();
}

uint32_t sref(const std::string& s) {
	return s == "x" ? NIF_NPOS : static_cast<uint32_t>(std::stoul(s));
}

void set_field(NiObject* o, const std::string& f, const std::vector<uint32_t>& v) {
	auto one = [&](NiRef& r) { r.index = v.empty() ? NIF_NPOS : v[0]; };
	auto many = [&](NiRefArray& arr) {
		for (auto x : v)
			arr.AddBlockRef(x);
	};
	auto net = dynamic_cast<NiObjectNET*>(o);
	auto av = dynamic_cast<NiAVObject*>(o);
	auto node = dynamic_cast<NiNode*>(o);
	auto shape = dynamic_cast<NiShape*>(o);
	if (f == "nm" && net) net->name.get() = "s" + std::to_string(v.empty() ? 0 : v[0]);
	else if (f == "e" && net) many(net->extraDataRefs);
	else if (f == "c" && net) one(net->controllerRef);
	else if (f == "p" && av) many(av->propertyRefs);
	else if (f == "k" && av) one(av->collisionRef);
	else if (f == "ch" && node) many(node->childRefs);
	else if (f == "ef" && node) many(node->effectRefs);
	else if (f == "d" && shape && shape->DataRef()) one(*shape->DataRef());
	else if (f == "s" && shape && shape->SkinInstanceRef()) one(*shape->SkinInstanceRef());
	else if (f == "sh" && shape && shape->ShaderPropertyRef()) one(*shape->ShaderPropertyRef());
	else if (f == "a" && shape && shape->AlphaPropertyRef()) one(*shape->AlphaPropertyRef());
	else if (auto x = dynamic_cast<NiSkinInstance*>(o); x && (f == "sd" || f == "sp" || f == "tg")) {
		if (f == "sd") one(x->dataRef);
		else if (f == "sp") one(x->skinPartitionRef);
		else one(x->targetRef);
	}
	else if (auto x = dynamic_cast<BSSkinInstance*>(o); x && (f == "sd" || f == "tg")) {
		if (f == "sd") one(x->dataRef);
		else one(x->targetRef);
	}
	else if (auto x = dynamic_cast<BSLightingShaderProperty*>(o); x && f == "t") one(x->textureSetRef);
	else if (auto x = dynamic_cast<NiControllerManager*>(o); x && (f == "sq" || f == "op")) {
		if (f == "sq") many(x->controllerSequenceRefs);
		else one(x->objectPaletteRef);
	}
	else if (auto x = dynamic_cast<NiTimeController*>(o); x && (f == "nx" || f == "tg")) {
		if (f == "nx") one(x->nextControllerRef);
		else one(x->targetRef);
	}
	else if (auto x = dynamic_cast<NiSingleInterpController*>(o); x && f == "ip") one(x->interpolatorRef);
	else if (auto x = dynamic_cast<NiControllerSequence*>(o); x) {
		if (f == "cb") {
			for (size_t i = 0; i + 1 < v.size(); i += 2) {
				ControllerLink l;
				l.interpolatorRef.index = v[i];
				l.controllerRef.index = v[i + 1];
				x->controlledBlocks.push_back(l);
			}
		}
		else if (f == "tk") one(x->textKeyRef);
		else if (f == "an") one(x->animNotesRef);
		else if (f == "al") many(x->animNotesRefs);
		else if (f == "mg") one(x->managerRef);
	}
	else if (auto x = dynamic_cast<BSAnimNotes*>(o); x && f == "nt") many(x->animNoteRefs);
	else if (auto x = dynamic_cast<bhkNiCollisionObject*>(o); x && (f == "b" || f == "tg")) {
		if (f == "b") one(x->bodyRef);
		else one(x->targetRef);
	}
	else if (auto x = dynamic_cast<bhkRigidBody*>(o); x && (f == "hs" || f == "cs")) {
		if (f == "hs") one(x->shapeRef);
		else many(x->constraintRefs);
	}
	else if (auto x = dynamic_cast<bhkListShape*>(o); x && f == "sub") many(x->subShapeRefs);
	else if (auto x = dynamic_cast<bhkBallSocketConstraintChain*>(o); x && (f == "ce" || f == "ea" || f == "eb")) {
		if (f == "ce") many(x->chainedEntityRefs);
		else if (f == "ea") one(x->entityARef);
		else one(x->entityBRef);
	}
	else if (auto x = dynamic_cast<bhkConstraint*>(o); x && f == "en") many(x->entityRefs);
}

void build_synth(NifFile& nif, const Case& c) {
	nif.Clear();
	std::string ver = c.get("ver");
	nif.hdr.SetVersion(ver == "ob" ? NiVersion::getOB() : ver == "fo3" ? NiVersion::getFO3() : ver == "fo4" ? NiVersion::getFO4() : NiVersion::getSSE());
	nif.hdr.SetBlockReference(&nif.blocks);
	nif.isValid = true;
	for (auto& bs : split(c.get("g"), '+')) {
		auto parts = split(bs, ':');
		auto b = make_class(parts[0]);
		for (size_t i = 1; i < parts.size(); ++i) {
			auto p = parts[i].find('=');
			std::vector<uint32_t> v;
			if (p != std::string::npos)
				for (auto& r : split(parts[i].substr(p + 1), '.'))
					v.push_back(sref(r));
			set_field(b.get(), parts[i].substr(0, p), v);
		}
		nif.hdr.AddBlock(std::move(b));
	}
}

std::map<std::string, std::string> s_files;

// load / build the model of a case, apply its edits and the preparations that are outside the property
bool prepare(NifFile& nif, const Case& c, const std::string& samples, UidMap& uids) {
	if (c.op == "file") {
		std::string name = c.get("name");
		if (!s_files.count(name)) {
			std::ifstream f(samples + "/" + name, std::ios::binary);
			std::stringstream ss;
			ss << f.rdbuf();
			s_files[name] = ss.str();
		}
		std::istringstream is(s_files[name]);
		if (nif.Load(is) != 0)
			return false;
	}
	else if (c.op == "synth")
		build_synth(nif, c);
	else
		return false;
	for (auto& e : split(c.get("edits"), ';'))
		if (!e.empty())
			apply_edit(nif, e);
	for (auto& b : nif.blocks)
		uids.fresh(b.get());
	std::string act = c.get("act");
	// the bounds update of Optimize is outside the property: do it before the first dump
	if (act == "opt" || act == "save")
		for (auto& s : nif.GetShapes())
			s->UpdateBounds();
	if (act == "save")
		nif.FinalizeData();
	return true;
}

// explicit shape order: "@k" = name of the k-th shape, "h<hex>" literal
std::vector<std::string> order_names(NifFile& nif, const Case& c) {
	std::vector<std::string> names;
	auto shapes = nif.GetShapes();
	for (auto& t : split(c.get("names"), ',')) {
		if (t.empty())
			continue;
		if (t[0] == '@')
			names.push_back(shapes.empty() ? std::string("none") : shapes[std::stoul(t.substr(1)) % shapes.size()]->name.get());
		else
			names.push_back(unhex(t));
	}
	return names;
}

void perform(NifFile& nif, const std::string& act, const std::vector<std::string>& names, std::stringstream* saved, int* rc) {
	if (act == "sort" || act == "sort2")
		nif.PrettySortBlocks();
	else if (act == "opt")
		nif.Optimize();
	else if (act == "order")
		nif.SetShapeOrder(names);
	else if (act == "save") {
		std::stringstream local;
		int r = nif.Save(saved ? *saved : local);
		if (rc)
			*rc = r;
	}
}

int oracle_sorter(int, char**) {
	std::string line;
	const char* sdir = std::getenv("VERIF_SAMPLES");
	std::string samples = sdir ? sdir : "/repo/tests/input";
	while (std::getline(std::cin, line)) {
		if (line.empty())
			continue;
		Case c = parse_case(line);
		s_uids = UidMap();
		std::ostringstream out;
		NifFile nif;
		if (!prepare(nif, c, samples, s_uids)) {
			std::cout << "I=LOADFAIL\n";
			continue;
		}
		std::string act = c.get("act");
		auto names = order_names(nif, c);
		out << "names=";
		for (size_t i = 0; i < names.size(); ++i)
			out << (i ? "," : "") << hexs(names[i]);
		out << " | " << dump_model(nif);
		if (act == "save") {
			std::stringstream ss;
			int rc = 0;
			perform(nif, act, names, &ss, &rc);
			out << " | " << dump_model(nif);
			NifFile re;
			ss.seekg(0);
			int lrc = re.Load(ss);
			out << " | rc=" << rc << " reload=" << lrc << " rn=" << re.hdr.GetNumBlocks() << " types=";
			for (size_t i = 0; i < re.blocks.size(); ++i)
				out << (i ? "," : "") << re.blocks[i]->GetBlockName();
		}
		else if (act != "dump") {
			perform(nif, act, names, nullptr, nullptr);
			out << " | " << dump_model(nif);
			if (act == "sort2") {
				nif.PrettySortBlocks();
				out << " | " << dump_model(nif);
			}
		}
		if (c.geti("raw") != 0 && act != "dump") {
			// written bytes before / after, on a second instance of the same model
			NifFile two;
			UidMap u2;
			if (prepare(two, c, samples, u2)) {
				out << " | raw0=" << raw_digests(two, u2);
				perform(two, act, order_names(two, c), nullptr, nullptr);
				out << " raw1=" << raw_digests(two, u2);
			}
		}
		std::cout << "I=" << out.str() << "\n";
	}
	niVerifHooks().onRef = nullptr;
	niVerifHooks().onStringRef = nullptr;
	return 0;
}

static Family reg("sorter", oracle_sorter);

} // namespace
