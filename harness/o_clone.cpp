// nifly_oracle clone: copies of whole models (C11) and shape cloning (C14) on real sample files.
//
//   copy name=<file> mode=ctor|assign|assignover side=s|c ops=<op;op;...> destroy=sc|cs [pre=share]
//        loads the sample, copies it (copy constructor / assignment into an empty or a loaded
//        model), dumps both models (graph with ghost identities, per-block content tokens, the
//        owner of every cached geometry pointer), raw-saves both, applies the edit history to ONE
//        side dumping both sides after every operation, re-saves both, destroys the two models in
//        the requested order and queries the survivor once more. Memory errors are left to ASan.
//   clone name=<file> dest=same|fresh|other:<file> shapes=<k,k,...|all> rounds=<r>
//        clones shapes (and clones of clones) into the destination and dumps source/destination.
//
// Dump of one model (no spaces):
//   n=..~nt=..~types=a,b~tidx=..~sizes=..~hs=0|1~strs=h,h~blocks=<uid>,<type>,<crefs>,<ptrs>,<dslot>,<cached>,<strs>,<tok>+...
//   crefs / ptrs : index fields in the order they pass through Put (canonical; the address order of
//                  std::set<NiRef*> differs between an object and its clone), '.'-separated, x = NPOS
//   dslot        : position of DataRef() inside crefs for NiGeometry blocks, '-' otherwise
//   cached       : '-' not a NiGeometry, 0 = null, F<file>:<uid> = a live block of model <file>,
//                  D = the address of no live block (dangling)
//   strs         : hashes of the block's string values in Put order
//   tok          : hash of the block's Put bytes with block references and string indices masked
#include <algorithm>
#include <cstring>
#include <fstream>
#include <functional>
#include <set>
#include <sstream>
#define private public
#define protected public
#include "Factory.hpp"
#include "NifFile.hpp"
#undef private
#undef protected
#include "oracle.hpp"
#include "graphdump.hpp"

using namespace nifly;

namespace {

uint64_t fnv(const void* data, size_t n, uint64_t h = 1469598103934665603ULL) {
	auto p = static_cast<const unsigned char*>(data);
	for (size_t i = 0; i < n; ++i) {
		h ^= p[i];
		h *= 1099511628211ULL;
	}
	return h;
}

std::string hex64(uint64_t h) {
	char buf[17];
	std::snprintf(buf, sizeof buf, "%016llx", static_cast<unsigned long long>(h));
	return buf;
}

std::string hash_str(const std::string& s) {
	return hex64(fnv(s.data(), s.size()));
}

std::string unhex(const std::string& h) {
	std::string out;
	for (size_t i = 0; i + 1 < h.size(); i += 2)
		out.push_back(static_cast<char>(std::stoi(h.substr(i, 2), nullptr, 16)));
	return out;
}

// ---- hook state for one block Put ----
long g_pos = 0;						 // bytes written so far
bool g_pendingRef = false;			 // the next 4-byte transfer is a block reference
bool g_pendingStr = false;			 // the next transfer(s) belong to a string reference
std::vector<NiRef*> g_seqRefs;		 // references in Put order
std::vector<long> g_maskAt;			 // offsets of 4-byte fields to mask
std::vector<std::string> g_seqStrs;	 // string values in Put order
std::vector<NiStringRef*> g_seqStrPtrs;
bool g_newStrings = false;

int g_inlineStr = 0;				 // old format: 0 = idle, 2 = length field next, 1 = characters next
std::vector<std::pair<long, long>> g_cut; // byte ranges of inline strings (reported separately as strings)

void hkTransfer(int mode, char*, std::streamsize count) {
	if (mode != 1)
		return;
	if (g_pendingRef && count == 4) {
		g_maskAt.push_back(g_pos);
		g_pendingRef = false;
	}
	else if (g_pendingStr && count == 4 && g_newStrings) {
		g_maskAt.push_back(g_pos);
		g_pendingStr = false;
	}
	else if (g_pendingStr && !g_newStrings) {
		// NiStringRef::Write, old format: a 4-byte length, then the characters
		g_pendingStr = false;
		g_inlineStr = 1;
		g_cut.emplace_back(g_pos, static_cast<long>(count));
	}
	else if (g_inlineStr == 1) {
		g_inlineStr = 0;
		g_cut.emplace_back(g_pos, static_cast<long>(count));
	}
	g_pos += static_cast<long>(count);
}
void hkRef(int mode, void* r) {
	if (mode != 1)
		return;
	g_seqRefs.push_back(static_cast<NiRef*>(r));
	g_pendingRef = true;
}
void hkStr(int mode, void* r) {
	if (mode != 1)
		return;
	g_seqStrs.push_back(static_cast<NiStringRef*>(r)->get());
	g_seqStrPtrs.push_back(static_cast<NiStringRef*>(r));
	g_pendingStr = true;
}

void hooks_on() {
	niVerifHooks().onTransfer = hkTransfer;
	niVerifHooks().onRef = hkRef;
	niVerifHooks().onStringRef = hkStr;
}
void hooks_off() {
	niVerifHooks().onTransfer = nullptr;
	niVerifHooks().onRef = nullptr;
	niVerifHooks().onStringRef = nullptr;
	niVerifHooks().onTyped = nullptr;
}

struct World {
	std::vector<NifFile*> files; // nullptr = destroyed
	UidMap uids;
	void number(NifFile* f) {
		for (auto& b : f->blocks)
			if (b && uids.ids.find(b.get()) == uids.ids.end())
				uids.fresh(b.get());
	}
	// forget objects that no longer exist anywhere
	void gc() {
		std::map<const void*, unsigned> live;
		for (auto f : files)
			if (f)
				for (auto& b : f->blocks) {
					auto it = uids.ids.find(b.get());
					if (it != uids.ids.end())
						live[b.get()] = it->second;
				}
		uids.ids.swap(live);
	}
	// which live block of which model has this address
	std::string owner(const void* p) {
		if (!p)
			return "0";
		for (size_t k = 0; k < files.size(); ++k)
			if (files[k])
				for (auto& b : files[k]->blocks)
					if (b.get() == p)
						return "F" + std::to_string(k) + ":" + std::to_string(uids.get(p));
		return "D";
	}
};

// canonical enumeration of a block. Put is not an observer (writing an NiBlockRefArray erases its
// empty entries), so a CLONE of the block is written. To know which reference of the live object
// is which written field, every reference of the live object is given a unique tag for the time of
// the cloning and restored right after (plain index fields: nothing else changes); the clone then
// has no empty reference, nothing is erased by Put, and the Put order of the tags is the canonical
// order of the in-memory references (empty array entries included).
struct Enumerated {
	std::vector<std::pair<NiRef*, uint32_t>> crefs, ptrs; // (reference of the LIVE object, its value), canonical order
	std::vector<size_t> caddr;							  // for each canonical child position: rank in address order
	std::vector<NiStringRef*> strPtrs;					  // string references of the clone, Put order
	std::vector<std::string> strs;
	std::string bytes; // references and string indices masked
	std::unique_ptr<NiObject> clone;
};

constexpr uint32_t kMarker = 0xFFFE0000u; // value of a reference added by the harness to locate an array
constexpr uint32_t kTag = 0xFFF00000u;
constexpr uint32_t kPos = 0xFFE00000u; // value = canonical position (scratch objects only)

Enumerated enumerate(NifFile& nif, NiObject* live) {
	Enumerated e;
	std::set<NiRef*> cset, pset;
	live->GetChildRefs(cset);
	live->GetPtrs(pset);
	std::vector<NiRef*> all(cset.begin(), cset.end()); // address order: what cloneBlock iterates
	size_t nchild = all.size();
	for (auto r : pset)
		if (!cset.count(r))
			all.push_back(r);
	std::vector<uint32_t> saved(all.size());
	for (size_t k = 0; k < all.size(); ++k) {
		saved[k] = all[k]->index;
		all[k]->index = kTag + static_cast<uint32_t>(k);
	}
	e.clone = live->Clone();
	for (size_t k = 0; k < all.size(); ++k)
		all[k]->index = saved[k];
	NiObject* b = e.clone.get();
	g_pos = 0;
	g_pendingRef = g_pendingStr = false;
	g_seqRefs.clear();
	g_maskAt.clear();
	g_seqStrs.clear();
	g_seqStrPtrs.clear();
	g_cut.clear();
	g_inlineStr = 0;
	g_newStrings = nif.hdr.GetVersion().File() >= NiFileVersion::V20_1_0_3;
	std::ostringstream ss;
	{
		NiOStream os(&ss, &nif.hdr);
		hooks_on();
		b->Put(os);
		hooks_off();
	}
	e.bytes = ss.str();
	std::vector<bool> seen(all.size(), false);
	auto take = [&](uint32_t tag) {
		if (tag < kTag || tag - kTag >= all.size())
			return;
		size_t k = tag - kTag;
		if (seen[k])
			return;
		seen[k] = true;
		if (k < nchild) {
			e.crefs.emplace_back(all[k], saved[k]);
			e.caddr.push_back(k);
		}
		else
			e.ptrs.emplace_back(all[k], saved[k]);
	};
	for (NiRef* r : g_seqRefs)
		take(r->index);
	// enumerated but not written in this version: address order
	for (size_t k = 0; k < all.size(); ++k)
		if (!seen[k])
			take(kTag + static_cast<uint32_t>(k));
	for (long at : g_maskAt)
		if (at >= 0 && static_cast<size_t>(at) + 4 <= e.bytes.size())
			std::memset(&e.bytes[static_cast<size_t>(at)], 0xEE, 4);
	// inline strings are reported as strings: replace each by one marker byte
	for (size_t k = g_cut.size(); k-- > 0;) {
		long at = g_cut[k].first, len = g_cut[k].second;
		if (at >= 0 && static_cast<size_t>(at + len) <= e.bytes.size())
			e.bytes.replace(static_cast<size_t>(at), static_cast<size_t>(len), k % 2 == 0 ? "\xEF" : "");
	}
	e.strs = g_seqStrs;
	e.strPtrs = g_seqStrPtrs;
	return e;
}

// BlockDump::crefs/ptrs hold the VALUES (index fields) in canonical order
struct BlockDump {
	std::vector<uint32_t> crefs, ptrs;
	std::vector<std::string> strs;
	std::string tok;
	long dataPos = -1;		   // NiGeometry: position of DataRef() in crefs
	long namePos = -1;		   // NiObjectNET: position of name among the strings
	long skinPos = -1;		   // NiShape: position of SkinInstanceRef() in crefs
	long childStart = -1, childLen = 0; // NiNode: childRefs = crefs[childStart, childStart+childLen)
	std::vector<uint32_t> cleared;		// NiNode: crefs of the CloneNamedNode result
	long clearedStart = -1;
	long boneStart = -1, boneLen = 0;	// NiBoneContainer: boneRefs = ptrs[boneStart, boneStart+boneLen)
	std::vector<size_t> order;			// canonical child positions in the order std::set<NiRef*> visits them
};

std::string idx_s(uint32_t r) {
	return r == NIF_NPOS ? std::string("x") : std::to_string(r);
}

// position range of the elements of a reference array inside an enumeration; the array of the
// scratch object carries one marker element at its end so that an empty array can be located too
template<typename Arr>
void locate(std::vector<std::pair<NiRef*, uint32_t>>& list, Arr& arr, long& start, long& len, std::vector<uint32_t>* valuesOut) {
	std::set<NiRef*> elems;
	for (auto& r : arr)
		elems.insert(static_cast<NiRef*>(&r));
	start = -1;
	len = 0;
	for (size_t j = 0; j < list.size(); ++j) {
		if (elems.count(list[j].first)) {
			if (start < 0)
				start = static_cast<long>(j);
			if (list[j].second != kMarker)
				++len;
		}
		if (valuesOut && list[j].second != kMarker)
			valuesOut->push_back(list[j].second);
	}
}

BlockDump dump_block(NifFile& nif, NiObject* live) {
	BlockDump d;
	{
		NiRef* dataRef = nullptr;
		NiRef* skinRef = nullptr;
		if (auto geom = dynamic_cast<NiGeometry*>(live))
			dataRef = static_cast<NiRef*>(geom->DataRef());
		if (auto shape = dynamic_cast<NiShape*>(live))
			skinRef = static_cast<NiRef*>(shape->SkinInstanceRef());
		Enumerated e = enumerate(nif, live);
		NiStringRef* nameRef = nullptr;
		if (auto net = dynamic_cast<NiObjectNET*>(e.clone.get()))
			nameRef = &net->name;
		for (size_t j = 0; j < e.crefs.size(); ++j) {
			if (e.crefs[j].first == dataRef)
				d.dataPos = static_cast<long>(j);
			if (e.crefs[j].first == skinRef)
				d.skinPos = static_cast<long>(j);
			d.crefs.push_back(e.crefs[j].second);
		}
		// the order in which std::set<NiRef*> (address order) visits the canonical positions
		d.order.assign(e.crefs.size(), 0);
		std::vector<std::pair<size_t, size_t>> byAddr;
		for (size_t j = 0; j < e.caddr.size(); ++j)
			byAddr.emplace_back(e.caddr[j], j);
		std::sort(byAddr.begin(), byAddr.end());
		for (size_t k = 0; k < byAddr.size(); ++k)
			d.order[k] = byAddr[k].second;
		for (auto& p : e.ptrs)
			d.ptrs.push_back(p.second);
		for (size_t j = 0; j < e.strPtrs.size(); ++j)
			if (e.strPtrs[j] == nameRef && d.namePos < 0)
				d.namePos = static_cast<long>(j);
		d.strs = e.strs;
		d.tok = hex64(fnv(e.bytes.data(), e.bytes.size()));
	}
	if (dynamic_cast<NiNode*>(live)) {
		// where childRefs sits among the child references (scratch clone with a marker child)
		std::unique_ptr<NiObject> c2 = live->Clone();
		auto n2 = dynamic_cast<NiNode*>(c2.get());
		n2->childRefs.AddBlockRef(kMarker);
		Enumerated e2 = enumerate(nif, n2);
		locate(e2.crefs, n2->childRefs, d.childStart, d.childLen, nullptr);
		// what CloneNamedNode makes of it: which references survive (as canonical positions of the
		// original), which member references are emptied. The clearing is done on a clone whose
		// references carry their canonical position as value.
		std::unique_ptr<NiObject> c3 = live->Clone();
		auto n3 = dynamic_cast<NiNode*>(c3.get());
		{
			Enumerated e0 = enumerate(nif, n3); // positions of n3's own references
			for (size_t j = 0; j < e0.crefs.size(); ++j)
				e0.crefs[j].first->index = kPos + static_cast<uint32_t>(j);
		}
		n3->collisionRef.Clear();
		n3->controllerRef.Clear();
		n3->childRefs.Clear();
		n3->effectRefs.Clear();
		n3->childRefs.AddBlockRef(kMarker);
		Enumerated e3 = enumerate(nif, n3);
		long l3 = 0;
		locate(e3.crefs, n3->childRefs, d.clearedStart, l3, &d.cleared);
		for (auto& v : d.cleared)
			v = (v >= kPos && v < kPos + 0x10000u) ? v - kPos : NIF_NPOS;
	}
	if (dynamic_cast<NiBoneContainer*>(live)) {
		std::unique_ptr<NiObject> c2 = live->Clone();
		auto bc = dynamic_cast<NiBoneContainer*>(c2.get());
		bc->boneRefs.AddBlockRef(kMarker);
		Enumerated e2 = enumerate(nif, bc);
		locate(e2.ptrs, bc->boneRefs, d.boneStart, d.boneLen, nullptr);
	}
	return d;
}

// the fields of one block after "<uid>,<type>,": crefs,ptrs,dslot,cached,strs,tok,namepos,node,skinpos,bones
std::string block_fields(const BlockDump& d, const std::string& cached) {
	std::ostringstream os;
	for (size_t j = 0; j < d.crefs.size(); ++j)
		os << (j ? "." : "") << idx_s(d.crefs[j]);
	os << ",";
	for (size_t j = 0; j < d.ptrs.size(); ++j)
		os << (j ? "." : "") << idx_s(d.ptrs[j]);
	os << "," << (d.dataPos < 0 ? std::string("-") : std::to_string(d.dataPos)) << "," << cached << ",";
	for (size_t j = 0; j < d.strs.size(); ++j)
		os << (j ? "." : "") << hash_str(d.strs[j]);
	os << "," << d.tok;
	os << "," << (d.namePos < 0 ? std::string("-") : std::to_string(d.namePos)) << ",";
	if (d.childStart >= 0) {
		os << d.childStart << ":" << d.childLen << ":" << d.clearedStart << ":";
		for (size_t j = 0; j < d.cleared.size(); ++j)
			os << (j ? "." : "") << idx_s(d.cleared[j]);
	}
	else
		os << "-";
	os << "," << (d.skinPos < 0 ? std::string("-") : std::to_string(d.skinPos)) << ",";
	if (d.boneStart >= 0)
		os << d.boneStart << ":" << d.boneLen;
	else
		os << "-";
	// visiting order of cloneBlock when it is not the canonical one
	bool ident = true;
	for (size_t k = 0; k < d.order.size(); ++k)
		if (d.order[k] != k)
			ident = false;
	os << ",";
	if (ident)
		os << "-";
	else
		for (size_t k = 0; k < d.order.size(); ++k)
			os << (k ? "." : "") << d.order[k];
	return os.str();
}

std::string dump_file(World& w, size_t k) {
	NifFile& nif = *w.files[k];
	NiHeader& hdr = nif.hdr;
	std::ostringstream os;
	os << "n=" << hdr.GetNumBlocks() << "~nt=" << hdr.numBlockTypes << "~types=";
	for (size_t i = 0; i < hdr.blockTypes.size(); ++i)
		os << (i ? "," : "") << hdr.blockTypes[i].get();
	os << "~tidx=" << str_list(hdr.blockTypeIndices) << "~sizes=" << str_list(hdr.blockSizes);
	os << "~hs=" << (hdr.GetVersion().File() >= NiFileVersion::V20_2_0_5 ? 1 : 0);
	os << "~strs=";
	for (size_t i = 0; i < hdr.strings.size(); ++i)
		os << (i ? "," : "") << hash_str(hdr.strings[i].get());
	os << "~blocks=";
	for (size_t i = 0; i < nif.blocks.size(); ++i) {
		if (i)
			os << "+";
		NiObject* b = nif.blocks[i].get();
		if (!b) {
			os << "NULL";
			continue;
		}
		BlockDump d = dump_block(nif, b);
		auto geom = dynamic_cast<NiGeometry*>(b);
		os << w.uids.get(b) << "," << b->GetBlockName() << "," << block_fields(d, geom ? w.owner(geom->GetGeomData()) : std::string("-"));
	}
	return os.str();
}

// raw save (no optimisation, no sorting): hash:length
std::string save_sig(NifFile& nif, std::string* out = nullptr) {
	std::stringstream ss;
	NifSaveOptions so;
	so.optimize = false;
	so.sortBlocks = false;
	int rc = nif.Save(ss, so);
	std::string s = ss.str();
	if (out)
		*out = s;
	return std::to_string(rc) + ":" + hex64(fnv(s.data(), s.size())) + ":" + std::to_string(s.size());
}

template<typename T>
uint64_t hvec(const std::vector<T>& v, uint64_t h) {
	uint64_t n = v.size();
	h = fnv(&n, sizeof n, h);
	return v.empty() ? h : fnv(v.data(), v.size() * sizeof(T), h);
}

// what the public accessors return for every shape (geometry is reached through the cached pointers)
std::string accessor_sig(NifFile& nif) {
	uint64_t h = 1469598103934665603ULL;
	auto shapes = nif.GetShapes();
	std::ostringstream os;
	for (auto s : shapes) {
		std::string nm = s->name.get();
		h = fnv(nm.data(), nm.size(), h);
		uint32_t nv = s->GetNumVertices();
		uint32_t nt = s->GetNumTriangles();
		h = fnv(&nv, 4, h);
		h = fnv(&nt, 4, h);
		std::vector<Vector3> verts;
		nif.GetVertsForShape(s, verts);
		h = hvec(verts, h);
		std::vector<Triangle> tris;
		s->GetTriangles(tris);
		h = hvec(tris, h);
		std::vector<Vector2> uvs;
		nif.GetUvsForShape(s, uvs);
		h = hvec(uvs, h);
		auto norms = nif.GetNormalsForShape(s);
		if (norms)
			h = hvec(*norms, h);
		for (uint32_t t = 0; t < 10; ++t) {
			std::string tex;
			uint32_t r = nif.GetTextureSlot(s, tex, t);
			h = fnv(&r, 4, h);
			h = fnv(tex.data(), tex.size(), h);
		}
		std::vector<std::string> bones;
		nif.GetShapeBoneList(s, bones);
		for (auto& bn : bones) {
			h = fnv(bn.data(), bn.size(), h);
			h = fnv("/", 1, h);
		}
		std::vector<int> ids;
		nif.GetShapeBoneIDList(s, ids);
		h = hvec(ids, h);
		if (dynamic_cast<BSTriShape*>(s)) {
			for (uint32_t bi = 0; bi < ids.size(); ++bi) {
				std::unordered_map<uint16_t, float> wts;
				nif.GetShapeBoneWeights(s, bi, wts);
				std::vector<std::pair<uint16_t, float>> sw(wts.begin(), wts.end());
				std::sort(sw.begin(), sw.end());
				for (auto& p : sw) {
					h = fnv(&p.first, 2, h);
					h = fnv(&p.second, 4, h);
				}
			}
		}
		else {
			// NiSkinData weights are packed (misaligned floats): hash the raw storage instead of going
			// through GetShapeBoneWeights, which binds references to them
			auto skinInst = nif.hdr.GetBlock<NiSkinInstance>(s->SkinInstanceRef());
			auto skinData = skinInst ? nif.hdr.GetBlock(skinInst->dataRef) : nullptr;
			if (skinData)
				for (auto& bone : skinData->bones)
					h = hvec(bone.vertexWeights, h);
		}
		MatTransform x = s->GetTransformToParent();
		h = fnv(&x.translation, sizeof x.translation, h);
		h = fnv(&x.scale, sizeof x.scale, h);
	}
	return std::to_string(shapes.size()) + ":" + hex64(h);
}

// API-built models (names starting with '@'), saved and loaded again so that they are files like any other:
//   @dup     : Scene Root -> { X, A, shape }, A -> { X }          two nodes of one name at different depths
//   @unnamed : Scene Root -> { "", A, shape }, A -> { "" }        the same with two unnamed nodes
//   @dupbone : Scene Root -> { BoneA, BoneB, skinned shape whose bone list is BoneA, BoneB, BoneA }
int build_api_model(NifFile& nif, const std::string& name) {
	if (name == "@dupbone") {
		nif.Create(NiVersion::getSSE());
		MatTransform id;
		nif.AddNode("BoneA", id);
		nif.AddNode("BoneB", id);
		std::vector<Vector3> v{Vector3(0, 0, 0), Vector3(1, 0, 0), Vector3(0, 1, 0)};
		std::vector<Triangle> t{Triangle(0, 1, 2)};
		std::vector<Vector2> uv{Vector2(0, 0), Vector2(1, 0), Vector2(0, 1)};
		auto sh = nif.CreateShapeFromData("S", &v, &t, &uv);
		nif.CreateSkinning(sh);
		int a = static_cast<int>(nif.GetBlockID(nif.FindBlockByName<NiNode>("BoneA")));
		int b = static_cast<int>(nif.GetBlockID(nif.FindBlockByName<NiNode>("BoneB")));
		std::vector<int> ids{a, b, a};
		nif.SetShapeBoneIDList(sh, ids);
		NifSaveOptions so;
		so.optimize = false;
		so.sortBlocks = false;
		std::stringstream ss;
		nif.Save(ss, so);
		ss.seekg(0);
		return nif.Load(ss);
	}
	if (name != "@dup" && name != "@unnamed")
		return 99;
	std::string x = name == "@dup" ? "X" : "";
	nif.Create(NiVersion::getSSE());
	MatTransform id;
	nif.AddNode(x, id);
	nif.AddNode("A", id);
	std::vector<Vector3> v{Vector3(0, 0, 0), Vector3(1, 0, 0), Vector3(0, 1, 0)};
	std::vector<Triangle> t{Triangle(0, 1, 2)};
	std::vector<Vector2> uv{Vector2(0, 0), Vector2(1, 0), Vector2(0, 1)};
	nif.CreateShapeFromData("S", &v, &t, &uv);
	nif.AddNode(x, id, nif.FindBlockByName<NiNode>("A"));
	NifSaveOptions so;
	so.optimize = false;
	so.sortBlocks = false;
	std::stringstream ss;
	nif.Save(ss, so);
	ss.seekg(0);
	return nif.Load(ss);
}

int load_sample(NifFile& nif, const std::string& name) {
	if (!name.empty() && name[0] == '@')
		return build_api_model(nif, name);
	const char* sdir = std::getenv("VERIF_SAMPLES");
	std::string samples = sdir ? sdir : "/repo/tests/input";
	std::ifstream f(samples + "/" + name, std::ios::binary);
	return nif.Load(f);
}

// "g<seed>": same permutation generator as o_graph.cpp / d_graph.ml
std::vector<uint32_t> gen_perm(uint32_t n, uint64_t x) {
	std::vector<uint32_t> p(n);
	for (uint32_t i = 0; i < n; ++i)
		p[i] = i;
	for (uint32_t i = n; i-- > 1;) {
		x = (x * 1103515245ULL + 12345ULL) % 2147483648ULL;
		uint32_t j = static_cast<uint32_t>(x % (i + 1));
		std::swap(p[i], p[j]);
	}
	return p;
}

uint32_t parse_id(NiHeader& hdr, const std::string& s) {
	if (s == "x")
		return NIF_NPOS;
	if (!s.empty() && s[0] == '%') {
		uint32_t n = hdr.GetNumBlocks();
		return n ? static_cast<uint32_t>(std::stoul(s.substr(1)) % n) : NIF_NPOS;
	}
	return static_cast<uint32_t>(std::stoul(s));
}

NiShape* pick_shape(NifFile& nif, const std::string& s) {
	auto shapes = nif.GetShapes();
	if (shapes.empty())
		return nullptr;
	return shapes[std::stoul(s) % shapes.size()];
}

// one edit operation on one model
//   D<id> A O g<seed> P<id> T<type>,<0|1>          header-level graph edits (as in o_graph.cpp)
//   V<shape>:<i.j.k>   DeleteVertsForShape (indices mod vertex count)
//   S<shape>:<seed>    SetVertsForShape (perturbed positions)
//   X<shape>:<slot>:<hex path>   SetTextureSlot
//   K<shape>           DeleteShape
//   N<shape>:<hex>     SetShapeName
//   G<shape>           delete the geometry data block of the shape through the header
std::string id_s(uint32_t id) {
	return id == NIF_NPOS ? std::string("x") : std::to_string(id);
}

std::string apply_edit(World& w, NifFile& nif, const std::string& op) {
	char k = op[0];
	std::string a = op.substr(1);
	NiHeader& hdr = nif.hdr;
	std::string resolved = op;
	if (k == 'D') {
		uint32_t id = parse_id(hdr, a);
		resolved = "D" + id_s(id);
		hdr.DeleteBlock(id);
	}
	else if (k == 'A') {
		auto n = std::make_unique<NiNode>();
		n->name.get() = "added";
		hdr.AddBlock(std::move(n));
	}
	else if (k == 'O') {
		std::vector<uint32_t> order = gen_perm(hdr.GetNumBlocks(), std::stoull(a.substr(1)));
		hdr.SetBlockOrder(order);
	}
	else if (k == 'P') {
		uint32_t id = parse_id(hdr, a);
		resolved = "P" + id_s(id);
		hdr.DeleteUnreferencedBlocks<NiObject>(id);
	}
	else if (k == 'T') {
		auto p = a.find(',');
		hdr.DeleteBlockByType(a.substr(0, p), a.substr(p + 1) == "1");
	}
	else if (k == 'V') {
		auto parts = split(a, ':');
		NiShape* s = pick_shape(nif, parts[0]);
		if (s) {
			uint32_t nv = s->GetNumVertices();
			std::set<uint16_t> idx;
			if (nv)
				for (auto& t : split(parts.size() > 1 ? parts[1] : "", '.'))
					idx.insert(static_cast<uint16_t>(std::stoul(t) % nv));
			std::vector<uint16_t> v(idx.begin(), idx.end());
			nif.DeleteVertsForShape(s, v);
		}
	}
	else if (k == 'S') {
		auto parts = split(a, ':');
		NiShape* s = pick_shape(nif, parts[0]);
		if (s) {
			std::vector<Vector3> verts;
			nif.GetVertsForShape(s, verts);
			uint64_t x = std::stoull(parts.size() > 1 ? parts[1] : "1");
			for (auto& v : verts) {
				x = (x * 1103515245ULL + 12345ULL) % 2147483648ULL;
				v.x += static_cast<float>(x % 7) * 0.25f + 0.25f;
				v.z -= static_cast<float>(x % 3) * 0.5f;
			}
			nif.SetVertsForShape(s, verts);
		}
	}
	else if (k == 'X') {
		auto parts = split(a, ':');
		NiShape* s = pick_shape(nif, parts[0]);
		if (s && parts.size() > 2) {
			std::string path = unhex(parts[2]);
			nif.SetTextureSlot(s, path, static_cast<uint32_t>(std::stoul(parts[1])));
		}
	}
	else if (k == 'K') {
		NiShape* s = pick_shape(nif, a);
		if (s)
			nif.DeleteShape(s);
	}
	else if (k == 'N') {
		auto parts = split(a, ':');
		NiShape* s = pick_shape(nif, parts[0]);
		if (s && parts.size() > 1)
			NifFile::RenameShape(s, unhex(parts[1]));
	}
	else if (k == 'G') {
		NiShape* s = pick_shape(nif, a);
		resolved = "Dx";
		if (s && s->HasData()) {
			resolved = "D" + id_s(s->DataRef()->index);
			hdr.DeleteBlock(*s->DataRef());
		}
	}
	w.number(&nif);
	w.gc();
	return resolved;
}

// which (shape class, block class) pairs SetGeomData accepts, measured on fresh instances of the
// classes present in the models
std::string compat_table(World& w) {
	std::set<std::string> shapes, all;
	for (auto f : w.files)
		if (f)
			for (auto& b : f->blocks) {
				if (!b)
					continue;
				all.insert(b->GetBlockName());
				if (dynamic_cast<NiGeometry*>(b.get()))
					shapes.insert(b->GetBlockName());
			}
	std::ostringstream os;
	bool first = true;
	auto& reg = NiFactoryRegister::Get();
	for (auto& sn : shapes) {
		auto sf = reg.GetFactoryByName(sn);
		if (!sf)
			continue;
		for (auto& dn : all) {
			auto df = reg.GetFactoryByName(dn);
			if (!df)
				continue;
			auto so = sf->Create();
			auto dobj = df->Create();
			auto g = dynamic_cast<NiGeometry*>(so.get());
			auto gd = dynamic_cast<NiGeometryData*>(dobj.get());
			if (!g || !gd)
				continue;
			g->SetGeomData(gd);
			if (g->GetGeomData() == gd) {
				os << (first ? "" : ",") << sn << ":" << dn;
				first = false;
			}
		}
	}
	return os.str();
}

// the block the 'A' edit adds, as it is dumped (fields after "<uid>,<type>,")
std::string added_template(NifFile& nif) {
	NiNode n;
	n.name.get() = "added";
	return block_fields(dump_block(nif, &n), "-");
}

// load a sample, or a loadable variant of it:
//   pre=share : every NiGeometry shape of a class references the data block of the first one
//               (saved and loaded again, so the variant is a file like any other)
//   pre=cycle : as pre=ctrl, and the controller's nextControllerRef designates the controller itself
//   pre=ctrl  : shape number [shapeK] gets a NiTransformController whose target pointer designates
//               the shape (what animated shapes look like), saved and loaded again
//   pre=dupnames : nodes X, A below the root and a second X below A are added (two nodes of one name)
//   pre=unnamed  : the same with two unnamed nodes
//   pre=collide  : an existing node is renamed to the name of an earlier node that hangs elsewhere
//   pre=dupbone  : the second bone node of shape number [shapeK] is renamed to the first bone's name
//   pre=detached : the last bone of shape number [shapeK], when its node has no node below it, is
//                  taken out of its parent's childRefs: a skin bone attached to nothing
int load_variant(NifFile& nif, const std::string& name, const std::string& pre, long shapeK = 0) {
	int rc = load_sample(nif, name);
	if (rc != 0 || (pre != "share" && pre != "ctrl" && pre != "cycle" && pre != "dupnames" && pre != "unnamed" && pre != "collide" && pre != "detached" && pre != "dupbone"))
		return rc;
	NifSaveOptions so0;
	so0.optimize = false;
	so0.sortBlocks = false;
	if (pre == "dupnames" || pre == "unnamed" || pre == "collide" || pre == "detached" || pre == "dupbone") {
		auto root = nif.GetRootNode();
		if (!root)
			return rc;
		if (pre == "dupnames" || pre == "unnamed") {
			std::string x = pre == "dupnames" ? "VerifDupX" : "";
			MatTransform id;
			nif.AddNode(x, id);
			nif.AddNode("VerifDupA", id);
			nif.AddNode(x, id, nif.FindBlockByName<NiNode>("VerifDupA"));
		}
		else if (pre == "collide") {
			std::vector<NiNode*> nodes;
			for (auto& b : nif.blocks) {
				auto n = dynamic_cast<NiNode*>(b.get());
				if (n && n != root)
					nodes.push_back(n);
			}
			bool done = false;
			for (size_t i = 0; i < nodes.size() && !done; ++i)
				for (size_t j = i + 1; j < nodes.size() && !done; ++j) {
					auto pa = nif.GetParentNode(nodes[i]);
					auto pb = nif.GetParentNode(nodes[j]);
					if (pa && pb && pa != pb && pb != root && pb != nodes[i] && nodes[i]->name.get() != nodes[j]->name.get()) {
						nodes[j]->name.get() = nodes[i]->name.get();
						done = true;
					}
				}
		}
		else if (pre == "dupbone") {
			// the second bone node of shape number [shapeK] takes the first bone's name: the bone list names one name twice
			auto shapes = nif.GetShapes();
			if (shapes.empty())
				return rc;
			NiShape* sh = shapes[static_cast<size_t>(shapeK) % shapes.size()];
			std::vector<int> ids;
			nif.GetShapeBoneIDList(sh, ids);
			if (ids.size() >= 2 && ids[0] >= 0 && ids[1] >= 0 && ids[0] != ids[1]) {
				auto b0 = nif.hdr.GetBlock<NiNode>(static_cast<uint32_t>(ids[0]));
				auto b1 = nif.hdr.GetBlock<NiNode>(static_cast<uint32_t>(ids[1]));
				if (b0 && b1)
					b1->name.get() = b0->name.get();
			}
		}
		else {
			auto shapes = nif.GetShapes();
			if (shapes.empty())
				return rc;
			NiShape* sh = shapes[static_cast<size_t>(shapeK) % shapes.size()];
			std::vector<int> ids;
			nif.GetShapeBoneIDList(sh, ids);
			if (!ids.empty() && ids.back() >= 0) {
				auto bone = nif.hdr.GetBlock<NiNode>(static_cast<uint32_t>(ids.back()));
				bool leaf = bone != nullptr;
				if (bone)
					for (auto& ch : bone->childRefs)
						if (nif.hdr.GetBlock<NiNode>(ch))
							leaf = false;
				auto parent = bone ? nif.GetParentNode(bone) : nullptr;
				if (leaf && parent && bone != root)
					for (auto& ch : parent->childRefs)
						if (ch.index == static_cast<uint32_t>(ids.back()))
							ch.Clear();
			}
		}
		std::stringstream ss;
		nif.Save(ss, so0);
		ss.seekg(0);
		return nif.Load(ss);
	}
	if (pre == "ctrl" || pre == "cycle") {
		auto shapes = nif.GetShapes();
		if (shapes.empty())
			return rc;
		NiShape* sh = shapes[static_cast<size_t>(shapeK) % shapes.size()];
		auto ctl = std::make_unique<NiTransformController>();
		ctl->targetRef.index = nif.GetBlockID(sh);
		ctl->nextControllerRef.index = sh->controllerRef.index;
		auto raw = ctl.get();
		sh->controllerRef.index = nif.hdr.AddBlock(std::move(ctl));
		if (pre == "cycle")
			raw->nextControllerRef.index = sh->controllerRef.index; // pre=cycle: the controller chain loops back to itself
		std::stringstream ss;
		nif.Save(ss, so0);
		ss.seekg(0);
		return nif.Load(ss);
	}
	std::map<std::string, uint32_t> first;
	for (auto& b : nif.blocks) {
		auto g = dynamic_cast<NiGeometry*>(b.get());
		if (!g || g->DataRef()->IsEmpty())
			continue;
		auto it = first.find(g->GetBlockName());
		if (it == first.end())
			first[g->GetBlockName()] = g->DataRef()->index;
		else
			g->DataRef()->index = it->second;
	}
	std::stringstream ss;
	NifSaveOptions so;
	so.optimize = false;
	so.sortBlocks = false;
	nif.Save(ss, so);
	ss.seekg(0);
	return nif.Load(ss);
}

void run_copy(const Case& c, std::ostream& out) {
	World w;
	std::string pre = c.get("pre");
	auto A = new NifFile();
	int rc = load_variant(*A, c.get("name"), pre);
	if (rc != 0) {
		out << "LOADFAIL" << rc << " | DONE";
		delete A;
		return;
	}
	// control: the same model loaded once more, never copied, never edited, in no world; it performs
	// the same sequence of saves and queries as the untouched side (a save is not always repeatable,
	// which is C02's subject: "unchanged" here means "as if the other model did not exist")
	NifFile Z;
	load_variant(Z, c.get("name"), pre);
	w.files.push_back(A);
	w.number(A);
	out << "SRC " << dump_file(w, 0);
	out << std::flush << " | NEXT " << w.uids.next;
	out << std::flush << " | COMPAT " << compat_table(w);
	out << std::flush << " | TPL " << added_template(*A);
	std::string mode = c.get("mode");
	NifFile* B = nullptr;
	if (mode == "ctor")
		B = new NifFile(*A);
	else {
		B = new NifFile();
		if (mode == "assignover") {
			// the destination already holds a model: CopyFrom clears it first
			std::string other = c.get("over").empty() ? c.get("name") : c.get("over");
			load_sample(*B, other);
		}
		*B = *A;
		if (c.get("twice") == "1")
			*B = *A;
	}
	w.files.push_back(B);
	w.number(B);
	out << std::flush << " | CPY " << dump_file(w, 1);
	out << std::flush << " | SRC1 " << dump_file(w, 0);
	std::string accz = accessor_sig(Z);
	out << std::flush << " | ACC " << accessor_sig(*A) << " " << accessor_sig(*B) << " ctl=" << accz;
	std::string sa0, sb0, sz0;
	std::string siga = save_sig(*A, &sa0), sigb = save_sig(*B, &sb0);
	save_sig(Z, &sz0);
	out << std::flush << " | SAVE " << siga << " " << sigb << " eq=" << (sa0 == sb0 ? 1 : 0) << " ctl=" << (sa0 == sz0 ? 1 : 0);
	if (sa0 != sb0 && A->blocks.size() == B->blocks.size()) {
		// which blocks write different bytes (the live objects, after the save normalised them)
		out << " diffblocks=";
		bool first = true;
		for (size_t i = 0; i < A->blocks.size(); ++i) {
			std::ostringstream pa, pb;
			{
				NiOStream oa(&pa, &A->hdr);
				A->blocks[i]->Put(oa);
				NiOStream ob(&pb, &B->hdr);
				B->blocks[i]->Put(ob);
			}
			if (pa.str() != pb.str()) {
				out << (first ? "" : ",") << i << ":" << A->blocks[i]->GetBlockName();
				first = false;
			}
		}
	}
	// state after the first save (saving may normalise the in-memory model)
	out << std::flush << " | POST " << dump_file(w, 0) << " " << dump_file(w, 1);
	std::string acca = accessor_sig(*A), accb = accessor_sig(*B);
	accz = accessor_sig(Z);
	out << std::flush << " | ACC1 " << acca << " " << accb << " ctl=" << (acca == accz && accb == accz ? 1 : 0);
	size_t side = c.get("side") == "c" ? 1 : 0;
	for (auto& op : split(c.get("ops"), ';')) {
		std::string res = apply_edit(w, *w.files[side], op);
		out << std::flush << " | OP " << res << " " << dump_file(w, 0) << " " << dump_file(w, 1);
	}
	// re-save: the untouched side must write and return what the control writes and returns
	size_t other = 1 - side;
	std::string so1, sz1;
	std::string sigo = save_sig(*w.files[other], &so1);
	save_sig(Z, &sz1);
	std::string acco = accessor_sig(*w.files[other]);
	accz = accessor_sig(Z);
	out << std::flush << " | RESAVE-OTHER " << sigo << " same=" << (so1 == sz1 ? 1 : 0) << " accsame=" << (acco == accz ? 1 : 0)
		<< " self=" << (so1 == (other == 0 ? sa0 : sb0) ? 1 : 0) << " accself=" << (acco == (other == 0 ? acca : accb) ? 1 : 0);
	std::string sigs = save_sig(*w.files[side]);
	out << std::flush << " | RESAVE-EDITED " << sigs << " acc=" << accessor_sig(*w.files[side]);
	std::string so2, sz2;
	sigo = save_sig(*w.files[other], &so2);
	save_sig(Z, &sz2);
	out << std::flush << " | RESAVE-OTHER2 " << sigo << " same=" << (so2 == sz2 ? 1 : 0) << " self=" << (so2 == so1 ? 1 : 0);
	// destruction order; the survivor is compared with itself before / after the destruction
	std::string order = c.get("destroy").empty() ? "sc" : c.get("destroy");
	size_t first = order[0] == 's' ? 0 : 1;
	size_t second = 1 - first;
	std::string dbefore = dump_file(w, second);
	std::string accbefore = accessor_sig(*w.files[second]);
	delete w.files[first];
	w.files[first] = nullptr;
	w.gc();
	std::string dafter = dump_file(w, second);
	std::string accafter = accessor_sig(*w.files[second]);
	std::string ssv;
	std::string sigsv = save_sig(*w.files[second], &ssv);
	std::string ctl = "-";
	if (second == other) {
		std::string sz3;
		save_sig(Z, &sz3);
		ctl = ssv == sz3 ? "1" : "0";
	}
	out << std::flush << " | SURVIVOR " << second << " " << dafter << " same=" << (dafter == dbefore ? 1 : 0)
		<< " accsame=" << (accafter == accbefore ? 1 : 0) << " save=" << sigsv << " ctl=" << ctl << " self=" << (second == other ? (ssv == so2 ? 1 : 0) : 1);
	delete w.files[second];
	w.files[second] = nullptr;
	out << std::flush << " | DONE";
}

// what the public accessors return for ONE shape (name excluded): geometry, shader, textures, skin
std::string shape_sig(NifFile& nif, NiShape* s) {
	uint64_t hg = 1469598103934665603ULL, hs = hg, ht = hg, hk = hg;
	uint32_t nv = s->GetNumVertices();
	uint32_t nt = s->GetNumTriangles();
	hg = fnv(&nv, 4, hg);
	hg = fnv(&nt, 4, hg);
	std::vector<Vector3> verts;
	nif.GetVertsForShape(s, verts);
	hg = hvec(verts, hg);
	std::vector<Triangle> tris;
	s->GetTriangles(tris);
	hg = hvec(tris, hg);
	std::vector<Vector2> uvs;
	nif.GetUvsForShape(s, uvs);
	hg = hvec(uvs, hg);
	auto norms = nif.GetNormalsForShape(s);
	uint32_t hasn = norms ? 1 : 0;
	hg = fnv(&hasn, 4, hg);
	if (norms)
		hg = hvec(*norms, hg);
	MatTransform x = s->GetTransformToParent();
	hg = fnv(&x.translation, sizeof x.translation, hg);
	hg = fnv(&x.scale, sizeof x.scale, hg);
	// shader
	auto shader = nif.GetShader(s);
	uint32_t has = shader ? 1 : 0;
	hs = fnv(&has, 4, hs);
	if (shader) {
		std::string bn = shader->GetBlockName();
		hs = fnv(bn.data(), bn.size(), hs);
		uint32_t t = shader->GetShaderType();
		hs = fnv(&t, 4, hs);
		bool f = shader->IsModelSpace();
		hs = fnv(&f, 1, hs);
		f = shader->IsSkinned();
		hs = fnv(&f, 1, hs);
		float gl = shader->GetGlossiness();
		hs = fnv(&gl, 4, hs);
		Vector3 sc = shader->GetSpecularColor();
		hs = fnv(&sc, sizeof sc, hs);
	}
	auto alpha = nif.GetAlphaProperty(s);
	has = alpha ? 1 : 0;
	hs = fnv(&has, 4, hs);
	if (alpha) {
		hs = fnv(&alpha->flags, sizeof alpha->flags, hs);
		hs = fnv(&alpha->threshold, sizeof alpha->threshold, hs);
	}
	// textures
	for (uint32_t t = 0; t < 10; ++t) {
		std::string tex;
		uint32_t r = nif.GetTextureSlot(s, tex, t);
		ht = fnv(&r, 4, ht);
		ht = fnv(tex.data(), tex.size(), ht);
		ht = fnv("|", 1, ht);
	}
	// skin: weights per bone NAME (indices are rebuilt by cloning), skin-to-bone transforms
	std::vector<std::string> bones;
	nif.GetShapeBoneList(s, bones);
	bool skinned = s->IsSkinned();
	hk = fnv(&skinned, 1, hk);
	std::ostringstream bl, bk;
	for (size_t bi = 0; bi < bones.size(); ++bi) {
		uint64_t hb = 1469598103934665603ULL;
		bl << (bi ? "," : "");
		for (unsigned char ch : bones[bi]) {
			char buf[3];
			std::snprintf(buf, sizeof buf, "%02x", ch);
			bl << buf;
		}
		hk = fnv(bones[bi].data(), bones[bi].size(), hk);
		hk = fnv("/", 1, hk);
		hb = fnv(bones[bi].data(), bones[bi].size(), hb);
		if (dynamic_cast<BSTriShape*>(s)) {
			std::unordered_map<uint16_t, float> wts;
			nif.GetShapeBoneWeights(s, static_cast<uint32_t>(bi), wts);
			std::vector<std::pair<uint16_t, float>> sw(wts.begin(), wts.end());
			std::sort(sw.begin(), sw.end());
			for (auto& p : sw) {
				hk = fnv(&p.first, 2, hk);
				hk = fnv(&p.second, 4, hk);
				hb = fnv(&p.first, 2, hb);
				hb = fnv(&p.second, 4, hb);
			}
		}
		else {
			auto skinInst = nif.hdr.GetBlock<NiSkinInstance>(s->SkinInstanceRef());
			auto skinData = skinInst ? nif.hdr.GetBlock(skinInst->dataRef) : nullptr;
			if (skinData && bi < skinData->bones.size())
				hb = hvec(skinData->bones[bi].vertexWeights, hb);
		}
		MatTransform xf;
		bool ok = nif.GetShapeTransformSkinToBone(s, static_cast<uint32_t>(bi), xf);
		hk = fnv(&ok, 1, hk);
		hb = fnv(&ok, 1, hb);
		if (ok) {
			hk = fnv(&xf.translation, sizeof xf.translation, hk);
			hk = fnv(&xf.scale, sizeof xf.scale, hk);
			hb = fnv(&xf.translation, sizeof xf.translation, hb);
			hb = fnv(&xf.scale, sizeof xf.scale, hb);
		}
		// per bone (position in the list, then content): what the k hash aggregates
		bk << (bi ? "." : "") << hex64(hb);
	}
	if (!dynamic_cast<BSTriShape*>(s)) {
		auto skinInst = nif.hdr.GetBlock<NiSkinInstance>(s->SkinInstanceRef());
		auto skinData = skinInst ? nif.hdr.GetBlock(skinInst->dataRef) : nullptr;
		if (skinData)
			for (auto& bone : skinData->bones)
				hk = hvec(bone.vertexWeights, hk);
	}
	return "g=" + hex64(hg) + ",s=" + hex64(hs) + ",t=" + hex64(ht) + ",k=" + hex64(hk) + ",nv=" + std::to_string(nv)
		   + ",nt=" + std::to_string(nt) + ",bk=" + bk.str() + ",bones=" + bl.str();
}

std::string hexs(const std::string& s) {
	std::ostringstream os;
	for (unsigned char ch : s) {
		char buf[3];
		std::snprintf(buf, sizeof buf, "%02x", ch);
		os << buf;
	}
	return os.str();
}

// names of all NiNode blocks of a model: index:hexname
std::string node_names(NifFile& nif) {
	std::ostringstream os;
	bool first = true;
	for (size_t i = 0; i < nif.blocks.size(); ++i) {
		auto n = dynamic_cast<NiNode*>(nif.blocks[i].get());
		if (!n)
			continue;
		os << (first ? "" : ",") << i << ":" << hexs(n->name.get());
		first = false;
	}
	return os.str();
}

// clone name=<file> dest=same|fresh|other:<file> shape=<k> rounds=<r>
//   round 1 clones shape k of the source into the destination; every further round clones the
//   previous clone inside the destination
void run_clone(const Case& c, std::ostream& out) {
	World w;
	auto S = new NifFile();
	int rc = load_variant(*S, c.get("name"), c.get("pre"), c.geti("shape"));
	if (rc != 0) {
		out << "LOADFAIL" << rc << " | DONE";
		delete S;
		return;
	}
	NifFile Z; // control: the untouched source
	load_variant(Z, c.get("name"), c.get("pre"), c.geti("shape"));
	std::string dest = c.get("dest");
	NifFile* D = S;
	if (dest == "fresh") {
		D = new NifFile();
		D->Create(S->hdr.GetVersion());
	}
	else if (dest.rfind("other:", 0) == 0) {
		D = new NifFile();
		rc = load_sample(*D, dest.substr(6));
		if (rc != 0) {
			out << "LOADFAIL" << rc << " | DONE";
			return;
		}
	}
	w.files.push_back(S);
	w.number(S);
	if (D != S) {
		w.files.push_back(D);
		w.number(D);
	}
	size_t di = D == S ? 0 : 1;
	auto shapes = S->GetShapes();
	if (shapes.empty()) {
		out << "NOSHAPE | DONE";
		return;
	}
	NiShape* srcShape = shapes[static_cast<size_t>(c.geti("shape")) % shapes.size()];
	out << "SRC " << dump_file(w, 0);
	out << std::flush << " | DST " << dump_file(w, di);
	out << std::flush << " | VER " << (S->hdr.GetVersion().File() == D->hdr.GetVersion().File() && S->hdr.GetVersion().User() == D->hdr.GetVersion().User()
										&& S->hdr.GetVersion().Stream() == D->hdr.GetVersion().Stream() ? 1 : 0)
		<< " sse=" << ((D->hdr.GetVersion().IsSK() || D->hdr.GetVersion().IsSSE()) ? 1 : 0);
	out << std::flush << " | NODES " << node_names(*S) << " " << node_names(*D);
	out << std::flush << " | COMPAT " << compat_table(w);
	{
		auto sr = S->GetRootNode();
		auto dr = D->GetRootNode();
		out << std::flush << " | ROOTS " << id_s(sr ? S->GetBlockID(sr) : NIF_NPOS) << " " << id_s(dr ? D->GetBlockID(dr) : NIF_NPOS);
	}
	long rounds = c.geti("rounds") > 0 ? c.geti("rounds") : 1;
	NifFile* curSrc = S;
	for (long r = 0; r < rounds; ++r) {
		std::string newName = srcShape->name.get() + "_c" + std::to_string(r + 1);
		uint32_t srcId = curSrc->GetBlockID(srcShape);
		std::string sigSrc = shape_sig(*curSrc, srcShape);
		std::string srcBefore = dump_file(w, curSrc == S ? 0 : di);
		uint32_t nBefore = D->hdr.GetNumBlocks();
		uint32_t next = w.uids.next;
		// announced before the call so that an abort inside CloneShape leaves the inputs behind
		out << std::flush << " | PLAN src=" << srcId << " next=" << next << " same=" << (curSrc == D ? 1 : 0) << " n0=" << nBefore << " name=" << hash_str(newName)
			<< " SRCB=" << srcBefore << " DSTB=" << dump_file(w, di) << std::flush;
		NiShape* clone = D->CloneShape(srcShape, newName, curSrc == D ? nullptr : curSrc);
		w.number(D);
		uint32_t cloneId = clone ? D->GetBlockID(clone) : NIF_NPOS;
		out << std::flush << " | ROUND src=" << srcId << " clone=" << id_s(cloneId) << " n0=" << nBefore << " next=" << next << " same=" << (curSrc == D ? 1 : 0)
			<< " name=" << hexs(newName) << " SRCB=" << srcBefore << " DSTA=" << dump_file(w, di)
			<< " SRCA=" << dump_file(w, curSrc == S ? 0 : di)
			<< " sigsrc=" << sigSrc << " sigsrc2=" << shape_sig(*curSrc, srcShape) << " sigclone=" << (clone ? shape_sig(*D, clone) : std::string("-"))
			<< " nodes=" << node_names(*D);
		if (!clone)
			break;
		srcShape = clone;
		curSrc = D;
	}
	// the source model still writes what the untouched control writes (different model destinations only)
	if (D != S) {
		std::string a, z;
		std::string sig = save_sig(*S, &a);
		save_sig(Z, &z);
		out << std::flush << " | SRCSAVE " << sig << " ctl=" << (a == z ? 1 : 0) << " acc=" << (accessor_sig(*S) == accessor_sig(Z) ? 1 : 0);
	}
	// save the destination, reload it, dump again
	std::string bytes;
	std::string sigd = save_sig(*D, &bytes);
	out << std::flush << " | DSTSAVED " << sigd << " " << dump_file(w, di);
	{
		NifFile R;
		std::stringstream ss(bytes);
		int lrc = R.Load(ss);
		World w2;
		w2.files.push_back(&R);
		w2.number(&R);
		out << std::flush << " | RELOAD rc=" << lrc;
		if (lrc == 0) {
			out << " " << dump_file(w2, 0) << " shapes=";
			bool first = true;
			for (auto s : R.GetShapes()) {
				out << (first ? "" : ";") << R.GetBlockID(s) << ":" << hexs(s->name.get()) << ":" << shape_sig(R, s);
				first = false;
			}
			out << " nodes=" << node_names(R);
		}
	}
	// the same shapes queried in the destination after its save
	out << std::flush << " | DSTSHAPES ";
	{
		bool first = true;
		for (auto s : D->GetShapes()) {
			out << (first ? "" : ";") << D->GetBlockID(s) << ":" << hexs(s->name.get()) << ":" << shape_sig(*D, s);
			first = false;
		}
	}
	if (D != S)
		delete D;
	delete S;
	out << std::flush << " | DONE";
}

void run_info(const Case& c, std::ostream& out) {
	World w;
	NifFile A;
	int rc = load_sample(A, c.get("name"));
	if (rc != 0) {
		out << "LOADFAIL" << rc << " | DONE";
		return;
	}
	w.files.push_back(&A);
	w.number(&A);
	out << "SRC " << dump_file(w, 0) << " | SHAPES ";
	bool first = true;
	for (auto s : A.GetShapes()) {
		out << (first ? "" : ",") << s->GetBlockName() << ":" << A.GetBlockID(s) << ":" << s->GetNumVertices();
		first = false;
	}
	out << std::flush << " | VER " << static_cast<unsigned>(A.hdr.GetVersion().File()) << "," << A.hdr.GetVersion().User() << ","
		<< A.hdr.GetVersion().Stream() << " | DONE";
}

int oracle_clone(int, char**) {
	std::string line;
	while (std::getline(std::cin, line)) {
		if (line.empty())
			continue;
		Case c = parse_case(line);
		std::cout << "I=";
		std::cout.flush();
		if (c.op == "copy")
			run_copy(c, std::cout);
		else if (c.op == "info")
			run_info(c, std::cout);
		else if (c.op == "clone")
			run_clone(c, std::cout);
		else if (c.op == "copyonly") {
			// nothing but the code under study: load, copy-construct, copy-assign, destroy
			auto A = new NifFile();
			int rc = load_sample(*A, c.get("name"));
			auto B = new NifFile(*A);
			NifFile C;
			C = *B;
			delete A;
			delete B;
			std::cout << "rc=" << rc << " valid=" << C.IsValid() << " n=" << C.hdr.GetNumBlocks() << " | DONE";
		}
		else
			std::cout << "?";
		hooks_off();
		std::cout << "\n";
		std::cout.flush();
	}
	return 0;
}

Family reg("clone", oracle_clone);

} // namespace
