// nifly_oracle blocks: per-block-type experiments driven through the verification hooks.
//   types                                  -> all registered block type names
//   blk type=T ver=<filehex>,<user>,<stream> seed=N
//        synthesises a populated instance of T by a *generative read* (the typed-read hook supplies
//        well-typed field values), then checks on the real code:
//          put . get . put = put   (block-level round trip, C01)
//          put twice on the same object gives the same bytes (C02, in-Sync part)
//          every block/string reference passing through Sync is enumerated by the owner (C05)
//        and prints the bytes and the primitive-transfer trace for the model side.
#include <algorithm>
#include <cstring>
#include <fstream>
#include <functional>
#include <set>
#include <sstream>
#define private public
#define protected public
#include "Factory.hpp"
#include "NifFile.hpp"
#include "Particles.hpp"
#undef private
#undef protected
#include "oracle.hpp"

using namespace nifly;

namespace {
struct Gen {
	uint64_t s = 88172645463325252ULL;
	void seed(uint64_t x) { s = x * 6364136223846793005ULL + 1442695040888963407ULL; if (!s) s = 1; next(); next(); }
	uint64_t next() {
		s ^= s << 13;
		s ^= s >> 7;
		s ^= s << 17;
		return s;
	}
	uint32_t below(uint32_t n) { return static_cast<uint32_t>(next() % n); }
};

Gen g_gen;
bool g_generate = false;		 // generative read active
bool g_nextIsRef = false;		 // the next typed 4-byte integral is a block reference
std::vector<long> g_trace;		 // primitive transfer sizes
std::vector<void*> g_refs;		 // NiRef objects seen in Sync
std::vector<void*> g_srefs;		 // NiStringRef objects seen in Sync
long g_maxCount = 3;
long g_budget = -1;			 // >= 0: number of generated integers left before the generator turns to zeros
bool g_monotoneBytes = false, g_sawZeroByte = false;
std::string g_b0;				 // the bytes the generative read delivered, in stream order
bool g_b0ok = true;
bool g_hi16 = false;			 // 16-bit flag words with a high bit (only for NiGeometryData-derived blocks)
bool g_descShaped = true;		 // 64-bit integers get vertex-descriptor-shaped values (block-level runs only)

void onTransfer(int mode, char* ptr, std::streamsize count) {
	g_trace.push_back(static_cast<long>(count));
	if (g_generate && mode == 0 && ptr) {
		if (count <= 8) {
			// an untyped scalar (element counts of the sized containers are read this way): small value
			std::memset(ptr, 0, static_cast<size_t>(count));
			uint32_t r = g_gen.below(16);
			ptr[0] = static_cast<char>(r < 12 ? g_gen.below(static_cast<uint32_t>(g_maxCount) + 1) : (r < 15 ? 4 + g_gen.below(6) : 1));
		}
		else
			for (std::streamsize i = 0; i < count; ++i)
				ptr[i] = static_cast<char>('0' + g_gen.below(10));
	}
	if (g_generate && mode == 0) {
		if (ptr)
			g_b0.append(ptr, static_cast<size_t>(count));
		else
			g_b0ok = false;	// a C string read: its bytes are not handed to the hook
	}
}

const float kFloats[] = {0.0f, 1.0f, -1.0f, 0.5f, 2.25f, 100.125f, -3.75f, 0.0625f};
// fspecial=1 cases: single floats come from the boundary palette instead (FLT_MAX, its neighbour, the infinities, a NaN,
// -0, a denormal): the values a float comparison in a Sync body distinguishes (BSLightingShaderProperty::Sync)
bool g_fspecial = false;
int g_floatShift = 0;	// copyblk edits: same seed (same counts, flags, nesting), every float moved along the palette
float pick_float() {
	if (!g_fspecial)
		return kFloats[(g_gen.below(8) + static_cast<uint32_t>(g_floatShift)) % 8];
	static const uint32_t bits[] = {0x7F7FFFFFu, 0x7F7FFFFEu, 0x7F800000u, 0xFF800000u, 0x7FC00000u, 0x80000000u, 0x00000001u, 0xFF7FFFFFu,
									0x3F800000u, 0x00000000u, 0xFFC00001u, 0x7F7FFFFFu};
	uint32_t b = bits[g_gen.below(12)];
	float f;
	std::memcpy(&f, &b, 4);
	return f;
}

void onTyped(int mode, void* ptr, size_t size, int kind) {
	if (!g_generate || mode != 0)
		return;
	unsigned char* p = static_cast<unsigned char*>(ptr);
	if (kind == 1) {
		p[0] = static_cast<unsigned char>(g_gen.below(2));
	}
	else if (kind == 2 || kind == 3) {
		uint64_t v;
		uint32_t r = g_gen.below(16);
		if (g_nextIsRef && size == 4) {
			v = (r < 5) ? 0xFFFFFFFFULL : g_gen.below(4);
			g_nextIsRef = false;
		}
		else if (size == 8 && r < 10 && g_descShaped) {
			// 64-bit integers are never counts in this library; the one that drives parsing is the
			// BSTriShape / NiSkinPartition vertex descriptor: size nibbles, offsets, 12 flag bits at 44.
			// Generate descriptor-shaped values so that the flag- and size-dependent branches are reached.
			static const uint64_t mainSizes[] = {0, 1, 2, 3, 4, 4, 5, 6, 7, 8};
			v = static_cast<uint64_t>(g_gen.below(16));				  // vertex size nibble
			v |= static_cast<uint64_t>(g_gen.below(16)) << 4;			  // dynamic/uv nibble
			v |= mainSizes[g_gen.below(10)] << 8;						  // main size (x4 bytes)
			v |= static_cast<uint64_t>(g_gen.below(1u << 16)) << 16;	  // further offsets
			v |= static_cast<uint64_t>(g_gen.below(1u << 12)) << 32;
			uint64_t flags = g_gen.below(1u << 11);
			if (g_gen.below(4) != 0)
				flags |= 1;												  // positions are almost always present
			v |= flags << 44;
		}
		else if (r < 11)
			v = g_gen.below(static_cast<uint32_t>(g_maxCount) + 1);
		else if (r == 12 && size == 2 && g_descShaped && g_hi16)
			v = 0x1000 | g_gen.below(4);		// 16-bit flag words with a high bit (NiGeometryData::dataFlags' tangent bit)
		else if (r < 13)
			v = 4 + g_gen.below(12);
		else if (r == 13)
			v = 255;
		else if (r == 14)
			v = (size == 1) ? 128 : 256;
		else
			v = 1;
		// copyblk cases: after g_budget generated integers everything is 0 (bounds the nesting of self-similar
		// structures such as UnionBV inside UnionBV when larger enum values are allowed)
		if (g_budget >= 0) {
			if (g_budget == 0)
				v = 0;
			else
				--g_budget;
		}
		// very large counts make the reader allocate gigabytes: the generator stays below 2^16 for
		// 4/8-byte integers except the all-ones pattern, which it only uses for references
		if (g_monotoneBytes && size == 1) {
			// BSGeometry reads four "slot present" bytes and indexes meshes[i] by slot number: a
			// present slot after an absent one indexes past the vector (malformed input, outside
			// every property's quantifier; noted in DESIGN.md section 7). Keep the flags monotone.
			if (g_sawZeroByte)
				v = 0;
			else if (v == 0)
				g_sawZeroByte = true;
			else
				v = 1;
		}
		std::memset(p, 0, size);
		std::memcpy(p, &v, std::min<size_t>(size, 8));
	}
	else if (kind == 4) {
		if (size == 4) {
			float f = pick_float();
			std::memcpy(p, &f, 4);
		}
		else if (size == 8) {
			double d = kFloats[g_gen.below(8)];
			std::memcpy(p, &d, 8);
		}
	}
	else {
		// plain structs: arrays of floats when the size is a multiple of 4, small 16-bit values otherwise
		if (size % 4 == 0) {
			for (size_t i = 0; i + 4 <= size; i += 4) {
				float f = kFloats[(g_gen.below(8) + static_cast<uint32_t>(g_floatShift)) % 8];
				std::memcpy(p + i, &f, 4);
			}
		}
		else {
			for (size_t i = 0; i < size; ++i)
				p[i] = (i % 2 == 0) ? static_cast<unsigned char>(g_gen.below(4)) : 0;
		}
	}
	// the typed value replaces what the raw transfer just delivered
	if (g_b0.size() >= size)
		std::memcpy(&g_b0[g_b0.size() - size], p, size);
	else
		g_b0ok = false;
}

void onRef(int, void* r) {
	g_refs.push_back(r);
	g_nextIsRef = true;
}
void onStringRef(int, void* r) {
	g_srefs.push_back(r);
}

void install() {
	niVerifHooks().onTransfer = onTransfer;
	niVerifHooks().onTyped = onTyped;
	niVerifHooks().onRef = onRef;
	niVerifHooks().onStringRef = onStringRef;
}

std::string hex(const std::string& s) {
	static const char* d = "0123456789abcdef";
	std::string o;
	o.reserve(s.size() * 2);
	for (unsigned char c : s) {
		o.push_back(d[c >> 4]);
		o.push_back(d[c & 15]);
	}
	return o;
}

std::string unhex(const std::string& h) {
	std::string o;
	auto v = [](char c) { return c <= '9' ? c - '0' : (c | 32) - 'a' + 10; };
	for (size_t i = 0; i + 1 < h.size(); i += 2)
		o.push_back(static_cast<char>(v(h[i]) * 16 + v(h[i + 1])));
	return o;
}

std::string str_trace(const std::vector<long>& t) {
	std::ostringstream os;
	for (size_t i = 0; i < t.size(); ++i)
		os << (i ? "," : "") << t[i];
	return os.str();
}

NiVersion parse_ver(const std::string& s) {
	auto p = split(s, ',');
	return NiVersion(static_cast<NiFileVersion>(std::stoul(p[0], nullptr, 16)), static_cast<uint32_t>(std::stoul(p[1])),
					 static_cast<uint32_t>(std::stoul(p[2])));
}

struct PutResult {
	std::string bytes;
	std::vector<long> trace;
	std::vector<void*> refs, srefs;
};

PutResult put_block(NiObject* b, NiHeader& hdr) {
	std::ostringstream os;
	NiOStream stream(&os, &hdr);
	g_trace.clear();
	g_refs.clear();
	g_srefs.clear();
	g_generate = false;
	b->Put(stream);
	PutResult r;
	r.bytes = os.str();
	r.trace = g_trace;
	r.refs = g_refs;
	r.srefs = g_srefs;
	return r;
}

bool covered(const std::vector<void*>& seen, const std::set<void*>& enumerated) {
	for (auto p : seen)
		if (!enumerated.count(p))
			return false;
	return true;
}

std::string do_blk(const Case& c) {
	auto& reg = NiFactoryRegister::Get();
	auto fac = reg.GetFactoryByName(c.get("type"));
	if (!fac)
		return "NOFACTORY";
	NiHeader hdr;
	hdr.SetVersion(parse_ver(c.get("ver")));
	g_maxCount = c.get("maxc").empty() ? 3 : c.geti("maxc");

	// 1. generative read from a stream of zeros
	std::string zeros(1 << 20, '\0');
	std::istringstream zin(zeros);
	NiIStream gin(&zin, &hdr);
	auto obj = fac->Create();
	g_gen.seed(static_cast<uint64_t>(c.geti("seed")) * 1000003ULL + std::hash<std::string>()(c.get("type") + c.get("ver")));
	g_trace.clear();
	g_refs.clear();
	g_srefs.clear();
	g_nextIsRef = false;
	g_monotoneBytes = c.get("type") == "BSGeometry";
	g_sawZeroByte = false;
	g_b0.clear();
	g_b0ok = true;
	g_hi16 = dynamic_cast<NiGeometryData*>(obj.get()) != nullptr;
	g_fspecial = c.geti("fspecial") == 1;
	g_generate = true;
	obj->Get(gin);
	g_generate = false;
	g_hi16 = false;
	g_fspecial = false;
	std::string b0 = g_b0;
	bool b0ok = g_b0ok;
	std::vector<long> gtrace = g_trace;

	// 2. first put
	PutResult p1 = put_block(obj.get(), hdr);
	// 3. second put of the same object (write idempotence inside Sync)
	PutResult p1b = put_block(obj.get(), hdr);
	// 4. reference enumeration against what passed through Sync
	std::set<NiRef*> cr, pt;
	obj->GetChildRefs(cr);
	obj->GetPtrs(pt);
	std::set<void*> allrefs;
	for (auto r : cr)
		allrefs.insert(r);
	for (auto r : pt)
		allrefs.insert(r);
	std::vector<NiStringRef*> sr;
	obj->GetStringRefs(sr);
	std::set<void*> allsrefs(sr.begin(), sr.end());
	bool refs_ok = covered(p1.refs, allrefs);
	// below 20.1.0.3 a NiStringRef is serialised as an inline string, not as a string-table index,
	// so there is nothing for the enumeration to keep up to date
	bool indexed_strings = hdr.GetVersion().File() >= V20_1_0_3;
	bool srefs_ok = !indexed_strings || covered(p1.srefs, allsrefs);
	// child indices agree with child refs (as multisets of index values)
	std::vector<uint32_t> ci;
	obj->GetChildIndices(ci);
	std::vector<uint32_t> cri;
	for (auto r : cr)
		cri.push_back(r->index);
	std::sort(ci.begin(), ci.end());
	std::sort(cri.begin(), cri.end());
	bool idx_ok = ci == cri;

	// 5. read the bytes back into a fresh object and put again
	std::istringstream bin(p1.bytes);
	NiIStream bstream(&bin, &hdr);
	auto obj2 = fac->Create();
	g_trace.clear();
	g_refs.clear();
	g_srefs.clear();
	obj2->Get(bstream);
	std::vector<long> rtrace = g_trace;
	std::vector<void*> rrefs = g_refs, rsrefs = g_srefs;
	bool consumed = !bin.fail() && static_cast<size_t>(bin.tellg()) == p1.bytes.size();
	if (p1.bytes.empty())
		consumed = true;
	// references seen while reading must be enumerated by the reader object too
	std::set<NiRef*> cr2, pt2;
	obj2->GetChildRefs(cr2);
	obj2->GetPtrs(pt2);
	std::set<void*> all2;
	for (auto r : cr2)
		all2.insert(r);
	for (auto r : pt2)
		all2.insert(r);
	std::vector<NiStringRef*> sr2;
	obj2->GetStringRefs(sr2);
	std::set<void*> alls2(sr2.begin(), sr2.end());
	bool rrefs_ok = covered(rrefs, all2) && (!indexed_strings || covered(rsrefs, alls2));
	PutResult p2 = put_block(obj2.get(), hdr);

	std::ostringstream os;
	os << "len=" << p1.bytes.size() << " rt=" << (p2.bytes == p1.bytes) << " consumed=" << consumed
	   << " idem=" << (p1b.bytes == p1.bytes) << " refs_ok=" << refs_ok << " srefs_ok=" << srefs_ok
	   << " rrefs_ok=" << rrefs_ok << " idx_ok=" << idx_ok << " nref=" << p1.refs.size() << " nsref=" << p1.srefs.size()
	   << " nenum=" << allrefs.size() << " wtrace=" << str_trace(p1.trace) << " rtrace=" << str_trace(rtrace)
	   << " b1=" << hex(p1.bytes);
	if (p2.bytes != p1.bytes)
		os << " b2=" << hex(p2.bytes);
	if (p1b.bytes != p1.bytes)
		os << " b1b=" << hex(p1b.bytes);
	// the byte stream the instance was generated from (what a file holding this object would contain)
	if (b0ok && b0.size() <= 200000)
		os << " b0=" << hex(b0);
	// facts the known-finding matchers need (public members only)
	if (auto bs = dynamic_cast<BSTriShape*>(obj.get()))
		os << " bs_skinned=" << bs->IsSkinned() << " bs_pds=" << bs->particleDataSize << " bs_nv=" << bs->GetNumVertices()
		   << " bs_nt=" << bs->GetNumTriangles();
	return os.str();
}

// reput type=T ver=.. bytes=<hex>: read the bytes with this build and write them again
std::string do_reput(const Case& c) {
	auto fac = NiFactoryRegister::Get().GetFactoryByName(c.get("type"));
	if (!fac)
		return "NOFACTORY";
	NiHeader hdr;
	hdr.SetVersion(parse_ver(c.get("ver")));
	std::string hexs = c.get("bytes"), bytes;
	for (size_t i = 0; i + 1 < hexs.size(); i += 2)
		bytes.push_back(static_cast<char>(std::stoi(hexs.substr(i, 2), nullptr, 16)));
	std::istringstream bin(bytes);
	NiIStream bstream(&bin, &hdr);
	auto obj = fac->Create();
	g_generate = false;
	g_trace.clear();
	obj->Get(bstream);
	std::vector<long> rtrace = g_trace;
	bool consumed = bytes.empty() || (!bin.fail() && static_cast<size_t>(bin.tellg()) == bytes.size());
	PutResult p = put_block(obj.get(), hdr);
	std::ostringstream os;
	os << "consumed=" << consumed << " same=" << (p.bytes == bytes) << " rtrace=" << str_trace(rtrace) << " out=" << hex(p.bytes);
	return os.str();
}

// rtrunc type=T ver=.. bytes=<hex> at=<n>[,<n>..]: read every listed prefix of the block bytes into a
// fresh object, write it, destroy it. The observation is that nothing crashes (ASan/UBSan build).
std::string do_rtrunc(const Case& c) {
	auto fac = NiFactoryRegister::Get().GetFactoryByName(c.get("type"));
	if (!fac)
		return "NOFACTORY";
	NiHeader hdr;
	hdr.SetVersion(parse_ver(c.get("ver")));
	std::string hexs = c.get("bytes"), bytes;
	for (size_t i = 0; i + 1 < hexs.size(); i += 2)
		bytes.push_back(static_cast<char>(std::stoi(hexs.substr(i, 2), nullptr, 16)));
	std::ostringstream os;
	g_generate = false;
	for (auto& a : split(c.get("at"), ',')) {
		size_t n = std::min<size_t>(std::stoull(a), bytes.size());
		std::istringstream bin(bytes.substr(0, n));
		NiIStream bstream(&bin, &hdr);
		auto obj = fac->Create();
		obj->Get(bstream);
		PutResult p = put_block(obj.get(), hdr);
		os << n << ":" << p.bytes.size() << " ";
	}
	return os.str();
}

// stale type=T ver=.. seed=N: the behavioural consequence of C05. A generated instance of T sits in a
// model behind four placeholder nodes; the values of all references passing through its Put are
// recorded, block 1 is deleted through NiHeader::DeleteBlock, and the references are recorded again:
// a reference to block 1 must now be empty, one above 1 must be one less, the others unchanged.
// The same is done for SetBlockOrder with a rotation.
std::string do_stale(const Case& c) {
	auto fac = NiFactoryRegister::Get().GetFactoryByName(c.get("type"));
	if (!fac)
		return "NOFACTORY";
	NifFile nif;
	nif.Create(parse_ver(c.get("ver")));          // block 0: root node
	for (int i = 0; i < 3; ++i)
		nif.GetHeader().AddBlock(std::make_unique<NiNode>());
	NiHeader& hdr = nif.GetHeader();
	// generative read of the instance (references take values in {NPOS, 0..3})
	std::string zeros(1 << 20, '\0');
	std::istringstream zin(zeros);
	NiIStream gin(&zin, &hdr);
	auto objS = fac->Create();
	NiObject* obj = objS.get();
	g_gen.seed(static_cast<uint64_t>(c.geti("seed")) * 1000003ULL + std::hash<std::string>()(c.get("type") + c.get("ver")));
	g_maxCount = 3;
	g_nextIsRef = false;
	g_monotoneBytes = c.get("type") == "BSGeometry";
	g_sawZeroByte = false;
	g_trace.clear();
	g_refs.clear();
	g_srefs.clear();
	g_generate = true;
	obj->Get(gin);
	g_generate = false;
	hdr.AddBlock(std::move(objS));               // block 4
	auto values = [&]() {
		PutResult p = put_block(obj, hdr);
		std::vector<uint32_t> v;
		for (auto r : p.refs)
			v.push_back(static_cast<NiRef*>(r)->index);
		return v;
	};
	std::vector<uint32_t> before = values();
	hdr.DeleteBlock(1u);
	std::vector<uint32_t> after = values();
	// CleanInvalidRefs may drop emptied entries of reference arrays: compare as multisets of the expected images
	std::vector<uint32_t> expect;
	for (uint32_t v : before)
		expect.push_back(v == NIF_NPOS ? v : (v == 1 ? NIF_NPOS : (v > 1 ? v - 1 : v)));
	auto nonempty = [](std::vector<uint32_t> v) {
		v.erase(std::remove(v.begin(), v.end(), NIF_NPOS), v.end());
		std::sort(v.begin(), v.end());
		return v;
	};
	bool del_ok = nonempty(expect) == nonempty(after);
	// rotation of the remaining blocks
	uint32_t n = hdr.GetNumBlocks();
	std::vector<uint32_t> order(n);
	for (uint32_t i = 0; i < n; ++i)
		order[i] = (i + 1) % n;
	std::vector<uint32_t> b2 = values();
	hdr.SetBlockOrder(order);
	std::vector<uint32_t> a2 = values();
	std::vector<uint32_t> e2;
	for (uint32_t v : b2)
		e2.push_back(v == NIF_NPOS || v >= n ? v : order[v]);
	bool ord_ok = nonempty(e2) == nonempty(a2);
	// deleting the LAST block (nothing moves up, but references to it must still be emptied): if the instance itself
	// is last, rotate once more so that a placeholder is
	if (hdr.GetBlock<NiObject>(n - 1) == obj) {
		hdr.SetBlockOrder(order);
	}
	std::vector<uint32_t> b3 = values();
	hdr.DeleteBlock(n - 1);
	std::vector<uint32_t> a3 = values();
	std::vector<uint32_t> e3;
	for (uint32_t v : b3)
		e3.push_back(v == n - 1 ? NIF_NPOS : v);
	bool last_ok = nonempty(e3) == nonempty(a3);
	std::ostringstream os;
	os << "nref=" << before.size() << " del_ok=" << del_ok << " ord_ok=" << ord_ok << " last_ok=" << last_ok << " before=" << str_list(before) << " after=" << str_list(after)
	   << " b2=" << str_list(b2) << " a2=" << str_list(a2) << " b3=" << str_list(b3) << " a3=" << str_list(a3);
	return os.str();
}

uint64_t fnv1a(const std::string& s) {
	uint64_t h = 1469598103934665603ULL;
	for (unsigned char c : s) {
		h ^= c;
		h *= 1099511628211ULL;
	}
	return h;
}

uint64_t fnv1a(const std::string& s);

// a digest of what the read-only API answers about a model (for "queries answer the same before and
// after a save")
std::string model_digest(NifFile& nif) {
	std::ostringstream os;
	auto& hdr = nif.GetHeader();
	os << "blocks=" << hdr.GetNumBlocks() << ";";
	for (uint32_t i = 0; i < hdr.GetNumBlocks(); ++i)
		os << hdr.GetBlockTypeStringById(i) << ",";
	os << ";";
	for (auto n : nif.GetNodes())
		os << n->name.get() << ",";
	os << ";";
	for (auto shape : nif.GetShapes()) {
		os << shape->name.get() << ":";
		std::string acc;
		if (auto v = nif.GetVertsForShape(shape))
			acc.append(reinterpret_cast<const char*>(v->data()), v->size() * sizeof(Vector3));
		if (auto nrm = nif.GetNormalsForShape(shape))
			acc.append(reinterpret_cast<const char*>(nrm->data()), nrm->size() * sizeof(Vector3));
		if (auto uv = nif.GetUvsForShape(shape))
			acc.append(reinterpret_cast<const char*>(uv->data()), uv->size() * sizeof(Vector2));
		std::vector<Triangle> tris;
		shape->GetTriangles(tris);
		acc.append(reinterpret_cast<const char*>(tris.data()), tris.size() * sizeof(Triangle));
		os << shape->GetNumVertices() << ":" << tris.size() << ":" << shape->HasTangents() << ":" << std::hex << fnv1a(acc) << std::dec << ":";
		std::vector<std::string> bones;
		nif.GetShapeBoneList(shape, bones);
		for (auto& b : bones)
			os << b << ",";
		os << ":";
		for (uint32_t t = 0; t < 10; ++t) {
			std::string tex;
			nif.GetTextureSlot(shape, tex, t);
			os << tex << ",";
		}
		// the partition query (read-only; it builds the partitions' true-triangle cache on first use) and what the
		// skin partition block holds in memory
		{
			NiVector<BSDismemberSkinInstance::PartitionInfo> pinf;
			std::vector<int> tp;
			nif.GetShapePartitions(shape, pinf, tp);
			std::string pacc(reinterpret_cast<const char*>(tp.data()), tp.size() * sizeof(int));
			auto skinInst = hdr.GetBlock<NiSkinInstance>(shape->SkinInstanceRef());
			if (auto sp = skinInst ? hdr.GetBlock(skinInst->skinPartitionRef) : nullptr)
				for (auto& p : sp->partitions) {
					pacc.append(reinterpret_cast<const char*>(p.triangles.data()), p.triangles.size() * sizeof(Triangle));
					pacc.append(reinterpret_cast<const char*>(p.vertexMap.data()), p.vertexMap.size() * sizeof(uint16_t));
				}
			os << ":" << tp.size() << ":" << std::hex << fnv1a(pacc) << std::dec;
		}
		os << ";";
	}
	return os.str();
}

// save3 name=<sample> opts=raw|default: three saves of ONE loaded object with queries in between
std::string do_save3(const Case& c) {
	const char* sdir = std::getenv("VERIF_SAMPLES");
	std::string path = std::string(sdir ? sdir : "/repo/tests/input") + "/" + c.get("name");
	std::ifstream f(path, std::ios::binary);
	if (!f)
		return "NOFILE";
	NifFile nif;
	int lrc = nif.Load(f);
	if (lrc != 0)
		return "load=" + std::to_string(lrc);
	NifSaveOptions so;
	if (c.get("opts") == "raw") {
		so.optimize = false;
		so.sortBlocks = false;
	}
	std::ostringstream os;
	// edit=k: an edited model - the k-th non-empty child reference of the file (in block order) is emptied,
	// which leaves a whole sub-tree unreferenced (orphan chains for the pruning of a default save)
	if (!c.get("edit").empty()) {
		std::vector<NiRef*> all;
		NiHeader& hdr = nif.GetHeader();
		for (uint32_t i = 0; i < hdr.GetNumBlocks(); ++i) {
			auto b = hdr.GetBlock<NiObject>(i);
			if (!b)
				continue;
			std::set<NiRef*> refs;
			b->GetChildRefs(refs);
			std::vector<NiRef*> sorted(refs.begin(), refs.end());
			std::sort(sorted.begin(), sorted.end(), [](NiRef* a, NiRef* b2) { return a->index < b2->index; });
			// a shape's geometry data reference is not edited: NiGeometry caches a raw pointer to the data
			// block that only SetDataRef / SetGeomData keep in step (emptying the reference behind its
			// back is API misuse; the dangling cache itself is C11's recorded finding)
			NiRef* dataRef = nullptr;
			if (auto shape = dynamic_cast<NiShape*>(b))
				dataRef = shape->DataRef();
			for (auto r : sorted)
				if (!r->IsEmpty() && r != dataRef)
					all.push_back(r);
		}
		if (all.empty())
			return "NOREFS";
		NiRef* victim = all[static_cast<size_t>(c.geti("edit")) % all.size()];
		os << "cleared=" << victim->index << " ";
		victim->Clear();
		// NiParticleSystem keeps ONE logical data reference in two members (dataRef / psysDataRef); every load
		// leaves them equal and Sync copies one over the other (Particles.cpp:574-575, 609-610). An edit of
		// that reference edits both, as any caller has to.
		for (uint32_t i = 0; i < hdr.GetNumBlocks(); ++i)
			if (auto ps = dynamic_cast<NiParticleSystem*>(hdr.GetBlock<NiObject>(i)))
				if (victim == static_cast<NiRef*>(&ps->dataRef) || victim == static_cast<NiRef*>(&ps->psysDataRef)) {
					ps->dataRef.Clear();
					ps->psysDataRef.Clear();
				}
	}
	// rotparts=1: the file under test stores its mapped skin-partition triangles rotated (p2,p3,p1) - what exporters
	// other than this library write; written raw and loaded again
	if (c.geti("rotparts") == 1) {
		NiHeader& h = nif.GetHeader();
		for (uint32_t i = 0; i < h.GetNumBlocks(); ++i)
			if (auto sp = h.GetBlock<NiSkinPartition>(i))
				for (auto& p : sp->partitions)
					for (auto& t : p.triangles)
						t = Triangle(t.p2, t.p3, t.p1);
		NifSaveOptions rawo;
		rawo.optimize = false;
		rawo.sortBlocks = false;
		std::stringstream ss;
		if (nif.Save(ss, rawo) != 0)
			return "rotsave=FAIL";
		std::stringstream in(ss.str());
		nif.Clear();
		if (nif.Load(in) != 0)
			return "rotload=FAIL";
	}
	// kids=k: an edited model - k more nodes under the root (a node with many children)
	if (!c.get("kids").empty())
		for (long i = 0; i < c.geti("kids"); ++i)
			nif.AddNode("kid" + std::to_string(i), MatTransform());
	// perturb=1: an edited model - every shape's positions and texture coordinates are set through the API to values
	// that no 16-bit float holds exactly (what an editor does after loading; freshly loaded data is half-exact)
	if (c.geti("perturb") == 1) {
		for (auto shape : nif.GetShapes()) {
			if (auto v = nif.GetVertsForShape(shape)) {
				std::vector<Vector3> nv(*v);
				for (size_t i = 0; i < nv.size(); ++i) {
					nv[i].x += 0.0123f + 0.001f * static_cast<float>(i % 7);
					nv[i].y -= 0.0071f;
					nv[i].z += 0.0333f;
				}
				nif.SetVertsForShape(shape, nv);
			}
			if (auto uv = nif.GetUvsForShape(shape)) {
				std::vector<Vector2> nuv(*uv);
				for (size_t i = 0; i < nuv.size(); ++i) {
					nuv[i].u += 0.00037f;
					nuv[i].v -= 0.00011f;
				}
				nif.SetUvsForShape(shape, nuv);
			}
		}
	}
	std::string d0 = model_digest(nif);
	std::string outs[3], digs[3];
	for (int r = 0; r < 3; ++r) {
		std::stringstream ss;
		int src = nif.Save(ss, so);
		outs[r] = ss.str();
		digs[r] = model_digest(nif);
		os << "save" << r << "=" << src << ":" << outs[r].size() << ":" << std::hex << fnv1a(outs[r]) << std::dec << " ";
	}
	// raw save must not change what queries answer at all; a default save may reorder/prune once, after
	// that nothing may change any more
	// outputs are compared after canonical string-table renumbering: the table is rebuilt in block order
	// BEFORE the blocks are sorted, so the first default save may number the same strings differently
	auto canon = [](const std::string& bytes) {
		std::stringstream in(bytes);
		NifFile re;
		if (re.Load(in) != 0)
			return std::string("LOADFAIL");
		NifSaveOptions raw;
		raw.optimize = false;
		raw.sortBlocks = false;
		std::stringstream o;
		re.Save(o, raw);
		return o.str();
	};
	std::string c0 = canon(outs[0]), c1 = canon(outs[1]), c2 = canon(outs[2]);
	os << "q01=" << (d0 == digs[0]) << " q12=" << (digs[0] == digs[1]) << " q23=" << (digs[1] == digs[2]) << " same12=" << (c0 == c1 && c0 != "LOADFAIL")
	   << " same23=" << (c1 == c2 && c1 != "LOADFAIL") << " bytes12=" << (outs[0] == outs[1]) << " bytes23=" << (outs[1] == outs[2]);
	if (d0 != digs[0])
		os << " d0=" << hex(d0.substr(0, 600)) << " d1=" << hex(digs[0].substr(0, 600));
	return os.str();
}

// copyblk type=T ver=.. seed=N: a generated instance of T inside a minimal file; the file object is copied, the
// instance inside ONE of the two is overwritten in place (generative read with another seed), the other one must
// still write what it wrote before - also after the edited one has been destroyed (C11 for every block type)
void regen_in_place(NifFile& nif, uint32_t id, const Case& c, long salt) {
	NiHeader& hdr = nif.GetHeader();
	auto obj = hdr.GetBlock<NiObject>(id);
	if (!obj)
		return;
	std::string zeros(1 << 20, '\0');
	std::istringstream zin(zeros);
	NiIStream gin(&zin, &hdr);
	// salt != 0: the SAME seed (the same structure: counts, flags, nesting) with every float moved along the palette, so
	// that nested objects are overwritten where they are instead of being dropped
	// (odd salts); even salts: another seed altogether (other counts and flags)
	bool sameStructure = salt % 2 == 1;
	g_gen.seed(static_cast<uint64_t>(c.geti("seed") + (sameStructure ? 0 : salt)) * 1000003ULL + std::hash<std::string>()(c.get("type") + c.get("ver")));
	g_floatShift = sameStructure ? 1 + static_cast<int>(salt % 7) : 0;
	g_maxCount = c.get("maxc").empty() ? 3 : static_cast<uint32_t>(c.geti("maxc"));
	g_nextIsRef = false;
	g_monotoneBytes = c.get("type") == "BSGeometry";
	g_sawZeroByte = false;
	g_descShaped = false;
	g_budget = 400;
	g_generate = true;
	obj->Get(gin);
	g_generate = false;
	g_budget = -1;
	g_floatShift = 0;
	g_descShaped = true;
}

std::string do_copyblk(const Case& c) {
	auto fac = NiFactoryRegister::Get().GetFactoryByName(c.get("type"));
	if (!fac)
		return "NOFACTORY";
	auto nifp = std::make_unique<NifFile>();
	NifFile& nif = *nifp;
	nif.Create(parse_ver(c.get("ver")));
	for (int i = 0; i < 3; ++i)
		nif.GetHeader().AddBlock(std::make_unique<NiNode>());
	uint32_t id = nif.GetHeader().AddBlock(fac->Create());
	regen_in_place(nif, id, c, 0);
	NifSaveOptions raw;
	raw.optimize = false;
	raw.sortBlocks = false;
	auto save = [&](NifFile& f) {
		std::stringstream ss;
		int r = f.Save(ss, raw);
		return std::to_string(r) + ":" + ss.str();
	};
	std::ostringstream os;
	std::string sA = save(nif), sB = save(nif), sC = save(nif);
	os << "len=" << sB.size() << " stable=" << (sB == sC) << " first=" << (sA == sB);
	if (sB != sC)
		return os.str();
	bool same1, kept1, kept1d, changed1, same2, kept2, kept2d, changed2;
	{
		// edit the copy, watch the source
		auto cp = std::make_unique<NifFile>(nif);
		same1 = save(*cp) == sB;
		regen_in_place(*cp, id, c, 7777);
		changed1 = save(*cp) != sB;
		kept1 = save(nif) == sB;
		regen_in_place(*cp, id, c, 7778);
		changed1 = changed1 || save(*cp) != sB;
		kept1 = kept1 && save(nif) == sB;
		cp.reset();
		kept1d = save(nif) == sB;
	}
	{
		// edit the source, watch the copy; then destroy the source
		auto cp = std::make_unique<NifFile>();
		*cp = nif;
		same2 = save(*cp) == sB;
		regen_in_place(nif, id, c, 9999);
		changed2 = save(nif) != sB;
		kept2 = save(*cp) == sB;
		regen_in_place(nif, id, c, 9998);
		changed2 = changed2 || save(nif) != sB;
		kept2 = kept2 && save(*cp) == sB;
		nifp.reset();
		kept2d = save(*cp) == sB;
	}
	os << " same1=" << same1 << " changed1=" << changed1 << " kept1=" << kept1 << " kept1d=" << kept1d
	   << " same2=" << same2 << " changed2=" << changed2 << " kept2=" << kept2 << " kept2d=" << kept2d;
	return os.str();
}

// fileblk type=T ver=.. seed=N: a generated instance of T inside a minimal file: raw save, load, raw save
std::string do_fileblk(const Case& c) {
	auto fac = NiFactoryRegister::Get().GetFactoryByName(c.get("type"));
	if (!fac)
		return "NOFACTORY";
	NifFile nif;
	nif.Create(parse_ver(c.get("ver")));
	for (int i = 0; i < 3; ++i)
		nif.GetHeader().AddBlock(std::make_unique<NiNode>());
	NiHeader& hdr = nif.GetHeader();
	std::string zeros(1 << 20, '\0');
	std::istringstream zin(zeros);
	NiIStream gin(&zin, &hdr);
	auto objS = fac->Create();
	g_gen.seed(static_cast<uint64_t>(c.geti("seed")) * 1000003ULL + std::hash<std::string>()(c.get("type") + c.get("ver")));
	g_maxCount = 3;
	g_nextIsRef = false;
	g_monotoneBytes = c.get("type") == "BSGeometry";
	g_sawZeroByte = false;
	// file level: the instance must be one the library's own normal form keeps (CalcDataSizes rewrites an
	// inconsistent vertex descriptor on every save), so descriptors stay small here
	g_descShaped = false;
	g_generate = true;
	objS->Get(gin);
	g_generate = false;
	g_descShaped = true;
	hdr.AddBlock(std::move(objS));
	NifSaveOptions raw;
	raw.optimize = false;
	raw.sortBlocks = false;
	std::ostringstream os;
	std::stringstream s1;
	int r1 = nif.Save(s1, raw);
	std::string b1 = s1.str();
	std::stringstream s1b;
	int r1b = nif.Save(s1b, raw);
	os << "save=" << r1 << ":" << b1.size() << " again=" << (s1b.str() == b1);
	if (!c.get("out").empty())
		std::ofstream(c.get("out"), std::ios::binary) << b1;	// the first save, for an independent reader
	std::stringstream in(b1);
	NifFile re;
	int lrc = re.Load(in);
	os << " load=" << lrc;
	if (lrc == 0) {
		std::stringstream s2;
		int r2 = re.Save(s2, raw);
		std::string b2 = s2.str();
		os << " resave=" << r2 << ":" << b2.size();
		std::stringstream in2(b2);
		NifFile re2;
		int l2 = re2.Load(in2);
		std::stringstream s3;
		if (l2 == 0)
			re2.Save(s3, raw);
		os << " load2=" << l2 << " fixed=" << (s3.str() == b2);
		if (!c.get("dump").empty()) {
			std::ofstream(c.get("dump") + "/b1.nif", std::ios::binary) << b1;
			std::ofstream(c.get("dump") + "/b2.nif", std::ios::binary) << b2;
			std::ofstream(c.get("dump") + "/b3.nif", std::ios::binary) << s3.str();
		}
	}
	return os.str();
}

// bsextra ver=<f,u,s> n=<verts> k=<extra floats per vertex>: a BSTriShape built through the public API with
// full-precision vertices that carry k extra floats each (a layout no sample file has): raw save, load, raw save, ...
std::string do_bsextra(const Case& c) {
	NifFile nif;
	nif.Create(parse_ver(c.get("ver")));
	int n = static_cast<int>(c.geti("n"));
	int k = static_cast<int>(c.geti("k"));
	std::vector<Vector3> verts;
	std::vector<Vector2> uvs;
	std::vector<Triangle> tris;
	for (int i = 0; i < n; ++i) {
		verts.emplace_back(static_cast<float>(i) * 0.5f, static_cast<float>((i * 7) % 5), static_cast<float>(i % 3) - 1.0f);
		uvs.emplace_back(static_cast<float>(i % 4) * 0.25f, static_cast<float>(i % 2));
	}
	for (int i = 2; i < n; ++i)
		tris.emplace_back(static_cast<uint16_t>(0), static_cast<uint16_t>(i - 1), static_cast<uint16_t>(i));
	NiShape* shape = nif.CreateShapeFromData("s", &verts, &tris, &uvs, nullptr);
	auto bs = dynamic_cast<BSTriShape*>(shape);
	if (!bs)
		return "NOTBS";
	bs->SetFullPrecision(true);
	for (int i = 0; i < n; ++i)
		for (int e = 0; e < k; ++e)
			bs->vertData[static_cast<size_t>(i)].extra.push_back(static_cast<float>(i + e) * 0.125f);
	NifSaveOptions raw;
	raw.optimize = false;
	raw.sortBlocks = false;
	std::ostringstream os;
	std::stringstream s1;
	int r1 = nif.Save(s1, raw);
	std::string b1 = s1.str();
	os << "save=" << r1 << ":" << b1.size();
	std::string prev = b1;
	for (int round = 2; round <= 4; ++round) {
		std::stringstream in(prev);
		NifFile re;
		int lrc = re.Load(in);
		if (lrc != 0) {
			os << " load" << round << "=" << lrc;
			return os.str();
		}
		size_t nex = 0;
		for (auto sh : re.GetShapes())
			if (auto b = dynamic_cast<BSTriShape*>(sh))
				if (!b->vertData.empty())
					nex = b->vertData.front().extra.size();
		std::stringstream so;
		int rr = re.Save(so, raw);
		std::string cur = so.str();
		os << " r" << round << "=" << rr << ":" << cur.size() << ":" << (cur == prev) << ":" << nex;
		prev = cur;
	}
	return os.str();
}

// resave name=<sample> opts=raw|default [rounds=N] [dump=1]: load a sample file and save it N times
// from the loaded object, then reload the last output and save again (fixed point test)
std::string do_resave(const Case& c) {
	const char* sdir = std::getenv("VERIF_SAMPLES");
	std::string path = std::string(sdir ? sdir : "/repo/tests/input") + "/" + c.get("name");
	std::ifstream f(path, std::ios::binary);
	if (!f)
		return "NOFILE";
	NifFile nif;
	int lrc = nif.Load(f);
	std::ostringstream os;
	os << "load=" << lrc;
	if (lrc != 0)
		return os.str();
	NifSaveOptions so;
	if (c.get("opts") == "raw") {
		so.optimize = false;
		so.sortBlocks = false;
	}
	// loose=k order=rev|fwd|mix: the file under test is the sample plus a chain of k unreferenced nodes (each lists the
	// previous one as its child), stored child-before-parent (rev), parent-before-child (fwd) or alternating (mix),
	// written raw and loaded again - a loadable file whose pruning needs several deletions that enable each other
	// kids=k: the file under test is the sample with k more nodes under its root (a node with many children: the
	// reordering of a default save must leave sibling order alone once the kinds are grouped), written raw and loaded again
	if (!c.get("kids").empty()) {
		long k = c.geti("kids");
		for (long i = 0; i < k; ++i)
			nif.AddNode("kid" + std::to_string(i), MatTransform());
		NifSaveOptions rawo;
		rawo.optimize = false;
		rawo.sortBlocks = false;
		std::stringstream ss;
		if (nif.Save(ss, rawo) != 0)
			return os.str() + " kidsave=FAIL";
		std::stringstream in(ss.str());
		nif.Clear();
		int l2 = nif.Load(in);
		os << " kidload=" << l2;
		if (l2 != 0)
			return os.str();
	}
	// tex=<hex>: the file under test is the sample with this (messy) path in the first texture slots of every shape,
	// written raw and loaded again (Load cleans texture paths: the cleaned form must be a fixed point)
	if (!c.get("tex").empty()) {
		std::string path = unhex(c.get("tex"));
		for (auto shape : nif.GetShapes())
			for (uint32_t slot = 0; slot < 2; ++slot) {
				std::string p = path;
				nif.SetTextureSlot(shape, p, slot);
			}
		NifSaveOptions rawo;
		rawo.optimize = false;
		rawo.sortBlocks = false;
		std::stringstream ss;
		if (nif.Save(ss, rawo) != 0)
			return os.str() + " texsave=FAIL";
		std::stringstream in(ss.str());
		nif.Clear();
		int l2 = nif.Load(in);
		os << " texload=" << l2;
		if (l2 != 0)
			return os.str();
	}
	if (!c.get("loose").empty()) {
		long k = c.geti("loose");
		NiHeader& hdr = nif.GetHeader();
		std::vector<uint32_t> ids;
		std::vector<NiNode*> nodes;
		for (long i = 0; i < k; ++i) {
			auto n = std::make_unique<NiNode>();
			n->name.get() = "loose" + std::to_string(i);
			nodes.push_back(n.get());
			ids.push_back(hdr.AddBlock(std::move(n)));
		}
		// chain[j] is the j-th link counted from the innermost child; position of link j among the added blocks
		std::vector<long> pos(k);
		std::string order = c.get("order");
		for (long j = 0; j < k; ++j)
			pos[j] = order == "fwd" ? k - 1 - j : order == "mix" ? (j % 2 == 0 ? j / 2 : k - 1 - j / 2) : j;
		for (long j = 1; j < k; ++j)
			nodes[pos[j]]->childRefs.AddBlockRef(ids[pos[j - 1]]);
		NifSaveOptions rawo;
		rawo.optimize = false;
		rawo.sortBlocks = false;
		std::stringstream ss;
		if (nif.Save(ss, rawo) != 0)
			return os.str() + " loosesave=FAIL";
		std::stringstream in(ss.str());
		nif.Clear();
		int l2 = nif.Load(in);
		os << " looseload=" << l2 << ":" << nif.GetHeader().GetNumBlocks();
		if (l2 != 0)
			return os.str();
	}
	long rounds = c.get("rounds").empty() ? 1 : c.geti("rounds");
	std::string last;
	for (long r = 0; r < rounds; ++r) {
		std::stringstream ss;
		int src = nif.Save(ss, so);
		last = ss.str();
		os << " save" << r << "=" << src << ":" << last.size() << ":" << std::hex << fnv1a(last) << std::dec;
	}
	// reload what was written and save it again
	{
		std::stringstream in(last);
		NifFile re;
		int rrc = re.Load(in);
		os << " reload=" << rrc;
		if (rrc == 0) {
			std::stringstream ss;
			int src = re.Save(ss, so);
			std::string again = ss.str();
			os << " resave=" << src << ":" << again.size() << ":" << std::hex << fnv1a(again) << std::dec
			   << " fixed=" << (again == last);
			// second round for the default options (converges within two rounds)
			std::stringstream in2(again);
			NifFile re2;
			if (re2.Load(in2) == 0) {
				std::stringstream ss2;
				re2.Save(ss2, so);
				os << " fixed2=" << (ss2.str() == again);
			}
		}
	}
	if (c.geti("dump") == 1)
		os << " bytes=" << hex(last);
	return os.str();
}

int oracle_blocks(int, char**) {
	install();
	std::string line;
	while (std::getline(std::cin, line)) {
		if (line.empty())
			continue;
		Case c = parse_case(line);
		std::string r = "?";
		if (c.op == "types") {
			std::vector<std::string> names;
			for (auto& kv : NiFactoryRegister::Get().m_registrations)
				names.push_back(kv.first);
			std::sort(names.begin(), names.end());
			std::ostringstream os;
			for (size_t i = 0; i < names.size(); ++i)
				os << (i ? "," : "") << names[i];
			r = os.str();
		}
		else if (c.op == "blk" || c.op == "reput" || c.op == "resave" || c.op == "rtrunc" || c.op == "stale" || c.op == "save3" || c.op == "fileblk" || c.op == "copyblk" || c.op == "bsextra") {
			try {
				r = c.op == "bsextra" ? do_bsextra(c) : c.op == "blk" ? do_blk(c) : (c.op == "reput" ? do_reput(c) : (c.op == "rtrunc" ? do_rtrunc(c) : (c.op == "stale" ? do_stale(c) : (c.op == "save3" ? do_save3(c) : (c.op == "fileblk" ? do_fileblk(c) : (c.op == "copyblk" ? do_copyblk(c) : do_resave(c)))))));
			}
			catch (const std::exception& e) {
				r = std::string("EXC:") + e.what();
			}
		}
		std::cout << "I=" << r << std::endl;
	}
	return 0;
}

Family reg("blocks", oracle_blocks);
} // namespace
