// nifly_oracle shapeapi (C13): creates a shape through NifFile::CreateShapeFromData in a given version
// triple, applies per-vertex setters / flag setters / save+reload, and after every step dumps the raw
// storage (private members) and the result of every getter. Floats are printed as their 32-bit pattern.
//
// case:  shape ver=<file>,<user>,<stream> nv= nt= nuv= nn= tr= pp=<bits,..> ph= pu= pc= seed=a,b,c,d ops=<op>;<op>...
//   nuv / nn = -1: pass nullptr.  Data stream k, element i, component j := pal[(a*i + b*j + c*k + d) mod |pal|].
//   ops:  sv:n:k:P su:n:k:P sn:n:k:P st:n:k:P sb:n:k:P sc:n:k:P se:n:k:P  (P = palette p|h|u|c)
//         sr:n:k:range (SetTriangles)  sbd:k:P (SetBounds)  ub  fp:b  vc:b nm:b tg:b uv:b  ct  save:o
#include <cstring>
#include <fstream>
#include <sstream>
#define private public
#define protected public
#include "NifFile.hpp"
#undef private
#undef protected
#include "oracle.hpp"

using namespace nifly;

namespace {

struct Gen {
	std::vector<uint32_t> pp, ph, pu, pc;
	uint64_t a = 1, b = 1, c = 1, d = 0;
	const std::vector<uint32_t>& pal(char p) const { return p == 'h' ? ph : p == 'u' ? pu : p == 'c' ? pc : pp; }
	uint32_t tok(char p, uint64_t k, uint64_t i, uint64_t j) const {
		auto& v = pal(p);
		return v[(a * i + b * j + c * k + d) % v.size()];
	}
	float f(char p, uint64_t k, uint64_t i, uint64_t j) const {
		uint32_t t = tok(p, k, i, j);
		float x;
		std::memcpy(&x, &t, 4);
		return x;
	}
	uint16_t idx(uint64_t k, uint64_t i, uint64_t j, uint64_t range) const {
		return static_cast<uint16_t>((a * i + b * j + c * k + d) % (range ? range : 1));
	}
};

uint32_t bits(float x) {
	uint32_t t;
	std::memcpy(&t, &x, 4);
	return t;
}

std::vector<uint32_t> parse_u32(const std::string& s) {
	std::vector<uint32_t> out;
	for (auto& t : split(s, ','))
		out.push_back(static_cast<uint32_t>(std::strtoull(t.c_str(), nullptr, 10)));
	return out;
}

// flat token array -> "len:" + all values (len <= 48) or 24 evenly spaced samples, "#" digest
std::string arr(const std::vector<uint64_t>& v) {
	std::ostringstream os;
	size_t n = v.size();
	os << n << ":";
	if (n <= 48) {
		for (size_t i = 0; i < n; ++i)
			os << (i ? "," : "") << v[i];
	}
	else {
		for (size_t j = 0; j < 24; ++j)
			os << (j ? "," : "") << v[(j * (n - 1)) / 23];
	}
	uint64_t h = 7;
	for (auto x : v)
		h = (h * 65599 + (x % 2147483647ULL)) % 2147483647ULL;
	os << "#" << h;
	return os.str();
}

void push3(std::vector<uint64_t>& o, const Vector3& v) {
	o.push_back(bits(v.x));
	o.push_back(bits(v.y));
	o.push_back(bits(v.z));
}
std::vector<uint64_t> flat3(const std::vector<Vector3>& v) {
	std::vector<uint64_t> o;
	o.reserve(v.size() * 3);
	for (auto& x : v)
		push3(o, x);
	return o;
}
std::vector<uint64_t> flat2(const std::vector<Vector2>& v) {
	std::vector<uint64_t> o;
	for (auto& x : v) {
		o.push_back(bits(x.u));
		o.push_back(bits(x.v));
	}
	return o;
}
std::vector<uint64_t> flat4(const std::vector<Color4>& v) {
	std::vector<uint64_t> o;
	for (auto& x : v) {
		o.push_back(bits(x.r));
		o.push_back(bits(x.g));
		o.push_back(bits(x.b));
		o.push_back(bits(x.a));
	}
	return o;
}
std::vector<uint64_t> flat1(const std::vector<float>& v) {
	std::vector<uint64_t> o;
	for (auto x : v)
		o.push_back(bits(x));
	return o;
}
std::vector<uint64_t> flatT(const std::vector<Triangle>& v) {
	std::vector<uint64_t> o;
	for (auto& t : v) {
		o.push_back(t.p1);
		o.push_back(t.p2);
		o.push_back(t.p3);
	}
	return o;
}
std::string bnd(const BoundingSphere& b) {
	std::ostringstream os;
	os << bits(b.center.x) << "," << bits(b.center.y) << "," << bits(b.center.z) << "," << bits(b.radius);
	return os.str();
}

// raw storage
std::string dump_state(NifFile& nif, NiShape* shape) {
	std::ostringstream os;
	if (auto bs = dynamic_cast<BSTriShape*>(shape)) {
		os << "S nv=" << bs->numVertices << " nt=" << bs->numTriangles << " desc=" << bs->vertexDesc.desc
		   << " ds=" << bs->dataSize << " vs=" << bs->vertexSize;
		std::vector<uint64_t> vV, vX, vU, vN, vBY, vT, vBZ, vC, vE;
		for (auto& v : bs->vertData) {
			push3(vV, v.vert);
			vX.push_back(bits(v.bitangentX));
			vU.push_back(bits(v.uv.u));
			vU.push_back(bits(v.uv.v));
			for (int k = 0; k < 3; ++k)
				vN.push_back(v.normal[k]);
			vBY.push_back(v.bitangentY);
			for (int k = 0; k < 3; ++k)
				vT.push_back(v.tangent[k]);
			vBZ.push_back(v.bitangentZ);
			for (int k = 0; k < 4; ++k)
				vC.push_back(v.colorData[k]);
			vE.push_back(bits(v.eyeData));
		}
		os << " vV=" << arr(vV) << " vX=" << arr(vX) << " vU=" << arr(vU) << " vN=" << arr(vN) << " vBY=" << arr(vBY)
		   << " vT=" << arr(vT) << " vBZ=" << arr(vBZ) << " vC=" << arr(vC) << " vE=" << arr(vE);
		os << " TR=" << arr(flatT(bs->triangles)) << " BD=" << bnd(bs->bounds);
		if (auto si = dynamic_cast<BSSubIndexTriShape*>(shape)) {
			os << " seg=" << si->segmentation.numPrimitives << "/" << si->segmentation.numSegments << "/"
			   << si->segmentation.numTotalSegments << "/" << si->segmentation.segments.size() << "/"
			   << (si->segmentation.segments.empty() ? 0 : si->segmentation.segments.back().numPrimitives);
		}
		else
			os << " seg=-";
	}
	else if (auto gd = dynamic_cast<NiTriShapeData*>(nif.GetGeometryData(shape))) {
		os << "G nv=" << gd->numVertices << " hv=" << gd->hasVertices << " hn=" << gd->hasNormals
		   << " hc=" << gd->hasVertexColors << " df=" << gd->dataFlags << " nt=" << gd->numTriangles
		   << " ntp=" << gd->numTrianglePoints << " ht=" << gd->hasTriangles;
		os << " V=" << arr(flat3(gd->vertices)) << " N=" << arr(flat3(gd->normals)) << " T=" << arr(flat3(gd->tangents))
		   << " B=" << arr(flat3(gd->bitangents)) << " C=" << arr(flat4(gd->vertexColors)) << " US=" << gd->uvSets.size()
		   << " U=" << arr(gd->uvSets.empty() ? std::vector<uint64_t>() : flat2(gd->uvSets[0]));
		os << " TR=" << arr(flatT(gd->triangles)) << " BD=" << bnd(gd->bounds);
	}
	else
		os << "X";
	return os.str();
}

// every getter of the API
std::string dump_getters(NifFile& nif, NiShape* shape) {
	std::ostringstream os;
	os << "gnv=" << shape->GetNumVertices() << " gnt=" << shape->GetNumTriangles();
	os << " fl=" << shape->HasVertices() << shape->HasUVs() << shape->HasNormals() << shape->HasTangents()
	   << shape->HasVertexColors() << shape->IsSkinned();
	if (auto bs = dynamic_cast<BSTriShape*>(shape))
		os << bs->HasEyeData() << bs->IsFullPrecision();
	else
		os << "--";
	{
		std::vector<Vector3> v;
		bool ok = nif.GetVertsForShape(shape, v);
		os << " gV=" << (ok ? arr(flat3(v)) : "-");
		auto p = nif.GetVertsForShape(shape);
		os << " pV=" << (p ? arr(flat3(*p)) : "-");
	}
	{
		std::vector<Vector2> v;
		bool ok = nif.GetUvsForShape(shape, v);
		os << " gU=" << (ok ? arr(flat2(v)) : "-");
		auto p = nif.GetUvsForShape(shape);
		os << " pU=" << (p ? arr(flat2(*p)) : "-");
	}
	{
		auto p = nif.GetNormalsForShape(shape);
		os << " pN=" << (p ? arr(flat3(*p)) : "-");
	}
	{
		std::vector<Vector3> v;
		bool ok = nif.GetTangentsForShape(shape, v);
		os << " gT=" << (ok ? arr(flat3(v)) : "-");
		auto p = nif.GetTangentsForShape(shape);
		os << " pT=" << (p ? arr(flat3(*p)) : "-");
	}
	{
		std::vector<Vector3> v;
		bool ok = nif.GetBitangentsForShape(shape, v);
		os << " gB=" << (ok ? arr(flat3(v)) : "-");
		auto p = nif.GetBitangentsForShape(shape);
		os << " pB=" << (p ? arr(flat3(*p)) : "-");
	}
	{
		std::vector<Color4> v;
		bool ok = nif.GetColorsForShape(shape, v);
		os << " gC=" << (ok ? arr(flat4(v)) : "-");
		auto p = nif.GetColorsForShape(shape);
		os << " pC=" << (p ? arr(flat4(*p)) : "-");
	}
	{
		std::vector<float> v;
		bool ok = NifFile::GetEyeDataForShape(shape, v);
		os << " gE=" << (ok ? arr(flat1(v)) : "-");
		auto p = nif.GetEyeDataForShape(shape);
		os << " pE=" << (p ? arr(flat1(*p)) : "-");
	}
	{
		std::vector<Triangle> t;
		bool ok = shape->GetTriangles(t);
		os << " gTR=" << (ok ? "1" : "0") << arr(flatT(t));
	}
	os << " gBD=" << bnd(shape->GetBounds());
	return os.str();
}

std::string dump_classes(NifFile& nif, NiShape* shape) {
	std::ostringstream os;
	auto& hdr = nif.GetHeader();
	os << "cls=" << shape->GetBlockName() << "/";
	NiGeometryData* gd = nullptr;
	if (shape->DataRef())
		gd = hdr.GetBlock<NiGeometryData>(shape->DataRef());
	os << (gd ? gd->GetBlockName() : "-") << "/";
	NiShader* sh = nif.GetShader(shape);
	os << (sh ? sh->GetBlockName() : "-") << "/";
	bool viaRef = shape->ShaderPropertyRef() && !shape->ShaderPropertyRef()->IsEmpty();
	bool viaProp = false;
	for (auto& p : shape->propertyRefs)
		if (hdr.GetBlock<NiShader>(p))
			viaProp = true;
	os << (viaRef ? "ref" : "") << (viaProp ? "prop" : "") << "/";
	NiObject* ts = nullptr;
	if (sh && sh->HasTextureSet())
		ts = hdr.GetBlock<NiObject>(sh->TextureSetRef()->index);
	os << (ts ? ts->GetBlockName() : "-") << "/";
	os << "sk" << shape->IsSkinned() << "/";
	std::string wet;
	if (auto ls = dynamic_cast<BSLightingShaderProperty*>(sh))
		wet = ls->GetWetMaterialName();
	os << "wet" << wet.size() << "/";
	os << "nb" << hdr.GetNumBlocks() << "/";
	auto root = nif.GetRootNode();
	bool child = false;
	if (root)
		for (auto& c : root->childRefs)
			if (hdr.GetBlock<NiShape>(c) == shape)
				child = true;
	os << "ch" << child << "/" << shape->name.get();
	return os.str();
}

int oracle_shapeapi(int, char**) {
	std::string line;
	while (std::getline(std::cin, line)) {
		if (line.empty())
			continue;
		Case c = parse_case(line);
		std::ostringstream out;
		out << "I=";
		if (c.op != "shape") {
			std::cout << "I=?" << std::endl;
			continue;
		}
		auto ver = split(c.get("ver"), ',');
		NiVersion version(static_cast<NiFileVersion>(std::strtoull(ver[0].c_str(), nullptr, 10)),
						  static_cast<uint32_t>(std::strtoull(ver[1].c_str(), nullptr, 10)),
						  static_cast<uint32_t>(std::strtoull(ver[2].c_str(), nullptr, 10)));
		Gen g;
		g.pp = parse_u32(c.get("pp"));
		g.ph = parse_u32(c.get("ph"));
		g.pu = parse_u32(c.get("pu"));
		g.pc = parse_u32(c.get("pc"));
		auto sd = split(c.get("seed"), ',');
		g.a = std::strtoull(sd[0].c_str(), nullptr, 10);
		g.b = std::strtoull(sd[1].c_str(), nullptr, 10);
		g.c = std::strtoull(sd[2].c_str(), nullptr, 10);
		g.d = std::strtoull(sd[3].c_str(), nullptr, 10);
		long long nv = c.geti("nv"), nt = c.geti("nt"), nuv = c.geti("nuv"), nn = c.geti("nn"), tr = c.geti("tr");
		char cp = c.get("cp").empty() ? 'p' : c.get("cp")[0];  // palette of the creation positions / uvs
		char cn = c.get("cn").empty() ? 'u' : c.get("cn")[0];  // palette of the creation normals

		auto mk3 = [&](long long n, uint64_t k, char p) {
			std::vector<Vector3> v(static_cast<size_t>(n));
			for (size_t i = 0; i < v.size(); ++i)
				v[i] = Vector3(g.f(p, k, i, 0), g.f(p, k, i, 1), g.f(p, k, i, 2));
			return v;
		};
		auto mk2 = [&](long long n, uint64_t k, char p) {
			std::vector<Vector2> v(static_cast<size_t>(n));
			for (size_t i = 0; i < v.size(); ++i)
				v[i] = Vector2(g.f(p, k, i, 0), g.f(p, k, i, 1));
			return v;
		};
		auto mkT = [&](long long n, uint64_t k, long long range) {
			std::vector<Triangle> v(static_cast<size_t>(n));
			for (size_t i = 0; i < v.size(); ++i)
				v[i] = Triangle(g.idx(k, i, 0, range), g.idx(k, i, 1, range), g.idx(k, i, 2, range));
			return v;
		};

		auto nifp = std::make_unique<NifFile>();
		nifp->Create(version);
		std::vector<Vector3> verts = mk3(nv, 0, cp);
		std::vector<Triangle> tris = mkT(nt, 1, tr);
		std::vector<Vector2> uvs = mk2(nuv < 0 ? 0 : nuv, 2, cp);
		std::vector<Vector3> norms = mk3(nn < 0 ? 0 : nn, 3, cn);
		NiShape* shape = nifp->CreateShapeFromData("Shp", &verts, &tris, nuv < 0 ? nullptr : &uvs, nn < 0 ? nullptr : &norms);
		if (!shape) {
			std::cout << "I=NOSHAPE" << std::endl;
			continue;
		}
		out << dump_classes(*nifp, shape) << " | " << dump_state(*nifp, shape) << " " << dump_getters(*nifp, shape);

		for (auto& opstr : split(c.get("ops"), ';')) {
			auto o = split(opstr, ':');
			const std::string& op = o[0];
			auto num = [&](size_t i) { return i < o.size() ? std::strtoll(o[i].c_str(), nullptr, 10) : 0LL; };
			char P = o.size() > 3 && !o[3].empty() ? o[3][0] : 'p';
			out << " | " << opstr << " ";
			if (op == "sv")
				nifp->SetVertsForShape(shape, mk3(num(1), num(2), P));
			else if (op == "su")
				nifp->SetUvsForShape(shape, mk2(num(1), num(2), P));
			else if (op == "sn")
				nifp->SetNormalsForShape(shape, mk3(num(1), num(2), P));
			else if (op == "st")
				nifp->SetTangentsForShape(shape, mk3(num(1), num(2), P));
			else if (op == "sb")
				nifp->SetBitangentsForShape(shape, mk3(num(1), num(2), P));
			else if (op == "sc") {
				std::vector<Color4> col(static_cast<size_t>(num(1)));
				for (size_t i = 0; i < col.size(); ++i)
					col[i] = Color4(g.f(P, num(2), i, 0), g.f(P, num(2), i, 1), g.f(P, num(2), i, 2), g.f(P, num(2), i, 3));
				nifp->SetColorsForShape(shape, col);
			}
			else if (op == "se") {
				std::vector<float> e(static_cast<size_t>(num(1)));
				for (size_t i = 0; i < e.size(); ++i)
					e[i] = g.f(P, num(2), i, 0);
				NifFile::SetEyeDataForShape(shape, e);
			}
			else if (op == "sr")
				shape->SetTriangles(mkT(num(1), num(2), num(3)));
			else if (op == "sbd") {
				char Q = o.size() > 2 && !o[2].empty() ? o[2][0] : 'p';
				shape->SetBounds(BoundingSphere(Vector3(g.f(Q, num(1), 0, 0), g.f(Q, num(1), 0, 1), g.f(Q, num(1), 0, 2)), g.f(Q, num(1), 0, 3)));
			}
			else if (op == "ub")
				shape->UpdateBounds();
			else if (op == "fp") {
				if (auto bs = dynamic_cast<BSTriShape*>(shape))
					bs->SetFullPrecision(num(1) != 0);
			}
			else if (op == "vc")
				shape->SetVertexColors(num(1) != 0);
			else if (op == "nm")
				shape->SetNormals(num(1) != 0);
			else if (op == "tg")
				shape->SetTangents(num(1) != 0);
			else if (op == "uv")
				shape->SetUVs(num(1) != 0);
			else if (op == "ct")
				nifp->CalcTangentsForShape(shape);
			else if (op == "save") {
				std::stringstream ss(std::ios::in | std::ios::out | std::ios::binary);
				NifSaveOptions so;
				so.optimize = num(1) != 0;
				int rc = nifp->Save(ss, so);
				// the saved-from object (FinalizeData computed sizes / descriptor; Sync may have touched it)
				NiShape* cur = nullptr;
				for (auto s : nifp->GetShapes())
					cur = cur ? cur : s;
				out << "rc" << rc << " " << (cur ? dump_state(*nifp, cur) : std::string("NOSHAPE")) << " ~ ";
				auto re = std::make_unique<NifFile>();
				ss.seekg(0);
				int lrc = re->Load(ss);
				if (lrc != 0) {
					out << "LOADFAIL" << lrc;
					break;
				}
				NiShape* ns = nullptr;
				for (auto s : re->GetShapes())
					ns = ns ? ns : s;
				if (!ns) {
					out << "NOSHAPE-AFTER-RELOAD";
					break;
				}
				nifp = std::move(re);
				shape = ns;
				out << "bytes" << ss.str().size() << " ";
			}
			else {
				out << "?";
				continue;
			}
			out << dump_state(*nifp, shape) << " " << dump_getters(*nifp, shape);
		}
		std::cout << out.str() << std::endl;
	}
	return 0;
}

Family reg("shapeapi", oracle_shapeapi);

} // namespace
