// Ghost identities for blocks: the harness numbers every block object when it is created so that
// "the same logical block" can be recognised after indices shift.
#pragma once
#include <map>
#include <memory>
#include <vector>

namespace nifly {
class NiObject;
}

struct UidMap {
	std::map<const void*, unsigned> ids;
	unsigned next = 0;
	void fresh(const void* p) { ids[p] = next++; }
	void inherit(const void* p, const void* from) {
		auto it = ids.find(from);
		if (it != ids.end())
			ids[p] = it->second;
		else
			fresh(p);
	}
	unsigned get(const void* p) {
		auto it = ids.find(p);
		if (it == ids.end()) {
			fresh(p);
			return ids[p];
		}
		return it->second;
	}
	// forget objects that no longer exist (their addresses may be reused)
	template<typename V>
	void gc(const V& blocks) {
		std::map<const void*, unsigned> live;
		for (auto& b : blocks) {
			auto it = ids.find(b.get());
			if (it != ids.end())
				live[b.get()] = it->second;
		}
		ids.swap(live);
	}
};
