// nifly_oracle container: the container layer of nifly as the real code behaves.
//   loadsave in=<path> out=<path> opts=<raw|default> [ops=<edit history>]
//        Load, optional edit history (syntax of o_graph.cpp's fileseq), Save; prints return codes,
//        HasUnknown(), the header tables after Load and after Save (private members), the string
//        indices stored in the blocks and the ones that went through NiStringRef::Write.
//   create ver=<OB|FO3|SK|SSE|FO4|FO76|SF> shapes=<n> seed=<k> out=<path> opts=<raw|default>
//   uhsfile in=<path> hu=<0|1>     UpdateHeaderStrings on a loaded file, with the references before/after
//   hput ...                       NiHeader::Put of synthetic tables, then NiHeader::Get of the bytes
//   nistr w=<1|2|4> null=<0|1> s=<hex>      NiString::Write then ::Read
//   sref file=<ver> idx=<n> s=<hex>         NiStringRef::Write then ::Read
//   uhs / fill file=<ver> hu=<0|1> n=<numStrings> tab=<hex,..> blocks=<idx:hex.idx:hex;...>
#include <algorithm>
#include <fstream>
#include <set>
#include <sstream>
#define private public
#define protected public
#include "NifFile.hpp"
#undef private
#undef protected
#include "oracle.hpp"

using namespace nifly;

namespace {

std::string hexs(const std::string& s) {
	static const char* d = "0123456789abcdef";
	std::string o;
	o.reserve(s.size() * 2);
	for (unsigned char c : s) {
		o.push_back(d[c >> 4]);
		o.push_back(d[c & 15]);
	}
	return o;
}

std::string unhex(const std::string& h) {
	std::string o;
	auto v = [](char c) { return c <= '9' ? c - '0' : (c | 32) - 'a' + 10; };
	for (size_t i = 0; i + 1 < h.size(); i += 2)
		o.push_back(static_cast<char>(v(h[i]) * 16 + v(h[i + 1])));
	return o;
}

template<typename V>
std::string hex_list(const V& v) {
	std::string o;
	bool first = true;
	for (auto& s : v) {
		if (!first)
			o += ",";
		first = false;
		o += hexs(s.get());
		if (s.get().empty())
			o += "-";
	}
	return o;
}

// the members NiHeader::Get/Put transfer, in the canonical text form shared with walknif.py and
// d_container.ml ("-" marks an empty byte string inside a list)
std::string dump_hdr(NiHeader& h) {
	std::ostringstream os;
	os << "file=" << static_cast<uint32_t>(h.version.File()) << " user=" << h.version.User() << " stream=" << h.version.Stream()
	   << " endian=" << static_cast<unsigned>(h.endian) << " nblocks=" << h.numBlocks << " creator=" << hexs(h.creator.get())
	   << " unk=" << h.unkInt1 << " e1=" << hexs(h.exportInfo1.get()) << " e2=" << hexs(h.exportInfo2.get())
	   << " e3=" << hexs(h.exportInfo3.get()) << " esz=" << h.embedDataSize << " emb=";
	{
		std::string e(h.embedData.begin(), h.embedData.end());
		os << hexs(e);
	}
	os << " nt=" << h.numBlockTypes << " types=" << hex_list(h.blockTypes) << " tidx=" << str_list(h.blockTypeIndices)
	   << " sizes=" << str_list(h.blockSizes) << " ns=" << h.numStrings << " maxlen=" << h.maxStringLen
	   << " strings=" << hex_list(h.strings) << " ng=" << h.numGroups << " groups=" << str_list(h.groupSizes);
	return os.str();
}

// string indices written by NiStringRef::Write during Save (hook) -----------------------------
bool g_nextIsStringIndex = false;
bool g_collect = false;
std::vector<uint32_t> g_written;
std::set<void*> g_seen;

void on_string_ref(int mode, void* ref) {
	if (!g_collect || mode != 1)
		return;
	g_seen.insert(ref);
	g_nextIsStringIndex = true;
}

void on_transfer(int mode, char* ptr, std::streamsize count) {
	if (!g_collect || mode != 1)
		return;
	if (g_nextIsStringIndex) {
		g_nextIsStringIndex = false;
		if (count == 4 && ptr) {
			uint32_t v;
			std::memcpy(&v, ptr, 4);
			g_written.push_back(v);
		}
	}
}

std::string index_summary(const std::vector<uint32_t>& v) {
	long long mx = -1;
	size_t npos = 0;
	for (auto x : v) {
		if (x == NIF_NPOS)
			++npos;
		else if (static_cast<long long>(x) > mx)
			mx = x;
	}
	std::ostringstream os;
	os << v.size() << ":" << npos << ":" << mx;
	return os.str();
}

// edit history on a loaded file (same syntax as o_graph.cpp fileseq) -------------------------
uint32_t ed_id(NiHeader& hdr, const std::string& s) {
	uint32_t n = hdr.GetNumBlocks();
	if (!s.empty() && s[0] == '%')
		return n ? static_cast<uint32_t>(std::stoul(s.substr(1)) % n) : NIF_NPOS;
	return s == "x" ? NIF_NPOS : static_cast<uint32_t>(std::stoul(s));
}

std::vector<uint32_t> ed_perm(uint32_t n, uint64_t x) {
	std::vector<uint32_t> p(n);
	for (uint32_t i = 0; i < n; ++i)
		p[i] = i;
	for (uint32_t i = n; i-- > 1;) {
		x = (x * 1103515245ULL + 12345ULL) % 2147483648ULL;
		uint32_t j = static_cast<uint32_t>(x % (i + 1));
		std::swap(p[i], p[j]);
	}
	return p;
}

void ed_apply(NifFile& nif, const std::string& op, int serial) {
	NiHeader& hdr = nif.hdr;
	char k = op[0];
	std::string a = op.substr(1);
	auto mk = [&](const std::string& spec) {
		auto n = std::make_unique<NiNode>();
		n->name.get() = "added" + std::to_string(serial);
		auto parts = split(spec, ':');
		if (parts.size() > 1)
			for (auto& r : split(parts[1], '.'))
				n->childRefs.AddBlockRef(ed_id(hdr, r));
		return n;
	};
	// NiGeometry keeps a raw pointer to its NiGeometryData block (LinkGeomData): deleting or replacing
	// that block through the header leaves the pointer dangling (use after free in FinalizeData /
	// UpdateBounds). That is outside this property; such operations are skipped here.
	auto is_geomdata = [&](uint32_t id) { return hdr.GetBlock<NiGeometryData>(id) != nullptr; };
	if (k == 'A')
		hdr.AddBlock(mk(a));
	else if (k == 'D') {
		if (!is_geomdata(ed_id(hdr, a)))
			hdr.DeleteBlock(ed_id(hdr, a));
	}
	else if (k == 'R') {
		auto p = a.find('=');
		if (!is_geomdata(ed_id(hdr, a.substr(0, p))))
			hdr.ReplaceBlock(ed_id(hdr, a.substr(0, p)), mk(a.substr(p + 1)));
	}
	else if (k == 'Y') {
		// replace a block by a clone of itself: the new block has the SAME type as the old one (the only
		// replacement that keeps a type that may occur once in the file)
		uint32_t id = ed_id(hdr, a);
		auto old = hdr.GetBlock<NiObject>(id);
		if (old && !is_geomdata(id) && !dynamic_cast<NiShape*>(old))
			hdr.ReplaceBlock(id, old->Clone());
	}
	else if (k == 'O') {
		std::vector<uint32_t> order;
		if (!a.empty() && a[0] == 'g')
			order = ed_perm(hdr.GetNumBlocks(), std::stoull(a.substr(1)));
		else
			for (auto& s : split(a, '.'))
				order.push_back(ed_id(hdr, s));
		hdr.SetBlockOrder(order);
	}
	else if (k == 'T') {
		auto p = a.find(',');
		hdr.DeleteBlockByType(a.substr(0, p), a.substr(p + 1) == "1");
	}
	else if (k == 'P')
		hdr.DeleteUnreferencedBlocks<NiObject>(ed_id(hdr, a));
	else if (k == 'S') {
		// rename: S<id>=<hex> sets the name of a named block (new header string on save)
		auto p = a.find('=');
		auto o = hdr.GetBlock<NiObjectNET>(ed_id(hdr, a.substr(0, p)));
		if (o)
			o->name.get() = unhex(a.substr(p + 1));
	}
	else if (k == 'C')
		hdr.SetCreatorInfo(unhex(a));
	else if (k == 'X')
		hdr.SetExportInfo(unhex(a));
}

NifSaveOptions save_opts(const std::string& s) {
	NifSaveOptions so;
	if (s == "raw") {
		so.optimize = false;
		so.sortBlocks = false;
	}
	else if (s == "opt")
		so.sortBlocks = false;
	else if (s == "sort")
		so.optimize = false;
	return so;
}

// Save to a file, collecting string indices; returns the text of the observation
std::string save_and_observe(NifFile& nif, const std::string& outp, const std::string& opts) {
	std::ostringstream out;
	g_written.clear();
	g_seen.clear();
	g_nextIsStringIndex = false;
	int src;
	{
		std::ofstream of(outp, std::ios::binary | std::ios::trunc);
		niVerifHooks().onStringRef = on_string_ref;
		niVerifHooks().onTransfer = on_transfer;
		g_collect = true;
		src = nif.Save(of, save_opts(opts));
		g_collect = false;
		niVerifHooks().onStringRef = nullptr;
		niVerifHooks().onTransfer = nullptr;
	}
	// indices held by the blocks after the save, through the owners' enumeration and through the hook
	std::vector<uint32_t> held;
	std::set<void*> enumerated;
	for (auto& b : nif.blocks) {
		if (!b)
			continue;
		std::vector<NiStringRef*> refs;
		b->GetStringRefs(refs);
		for (auto r : refs) {
			held.push_back(r->GetIndex());
			enumerated.insert(r);
		}
	}
	size_t hookOnly = 0;
	for (auto p : g_seen)
		if (!enumerated.count(p)) {
			++hookOnly;
			held.push_back(static_cast<NiStringRef*>(p)->GetIndex());
		}
	// what every block serialises to on its own (the byte count the size table has to carry)
	std::ostringstream psz;
	for (size_t i = 0; i < nif.blocks.size(); ++i) {
		std::ostringstream one;
		NiOStream s2(&one, &nif.hdr);
		if (nif.blocks[i])
			nif.blocks[i]->Put(s2);
		psz << (i ? "," : "") << one.str().size();
	}
	out << "psz=" << psz.str() << " ";
	// the real type of every block (hex of GetBlockName), to be compared with the file's type table entries
	{
		std::ostringstream bn;
		for (size_t i = 0; i < nif.blocks.size(); ++i) {
			std::string nm = nif.blocks[i] ? std::string(nif.blocks[i]->GetBlockName()) : std::string();
			bn << (i ? "," : "");
			static const char* hx = "0123456789abcdef";
			for (unsigned char ch : nm)
				bn << hx[ch >> 4] << hx[ch & 15];
		}
		out << "bnames=" << bn.str() << " ";
	}
	out << "src=" << src << " hu2=" << (nif.HasUnknown() ? 1 : 0) << " held=" << index_summary(held) << " written=" << index_summary(g_written)
		<< " hookonly=" << hookOnly << " hs=" << dump_hdr(nif.hdr);
	return out.str();
}

// synthetic block with string references, for the string table functions
class SBlock : public NiCloneable<SBlock, NiObject> {
public:
	std::vector<NiStringRef> refs;
	void GetStringRefs(std::vector<NiStringRef*>& r) override {
		for (auto& x : refs)
			r.push_back(&x);
	}
};

std::string dump_refs(std::vector<std::unique_ptr<NiObject>>& blocks) {
	std::string o;
	bool firstb = true;
	for (auto& b : blocks) {
		if (!firstb)
			o += ";";
		firstb = false;
		std::vector<NiStringRef*> refs;
		if (b)
			b->GetStringRefs(refs);
		bool first = true;
		for (auto r : refs) {
			if (!first)
				o += ".";
			first = false;
			o += (r->GetIndex() == NIF_NPOS ? std::string("x") : std::to_string(r->GetIndex())) + ":" + hexs(r->get());
		}
		if (refs.empty())
			o += "-";
	}
	return o;
}

std::string dump_tab(NiHeader& h) {
	std::ostringstream os;
	os << "n=" << h.numStrings << " maxlen=" << h.maxStringLen << " tab=" << hex_list(h.strings);
	return os.str();
}

void set_tab(NiHeader& h, const Case& c) {
	h.strings.clear();
	for (auto& s : split(c.get("tab"), ','))
		h.strings.emplace_back(unhex(s == "-" ? "" : s));
	h.numStrings = c.kv.count("n") ? static_cast<uint32_t>(c.geti("n")) : static_cast<uint32_t>(h.strings.size());
	h.maxStringLen = static_cast<uint32_t>(c.geti("maxlen"));
}

void set_blocks(std::vector<std::unique_ptr<NiObject>>& blocks, const Case& c) {
	for (auto& bs : split(c.get("blocks"), ';')) {
		auto b = std::make_unique<SBlock>();
		if (bs != "-")
			for (auto& rs : split(bs, '.')) {
				auto p = rs.find(':');
				NiStringRef r;
				std::string i = rs.substr(0, p);
				r.SetIndex(i == "x" ? NIF_NPOS : static_cast<uint32_t>(std::stoul(i)));
				r.get() = unhex(rs.substr(p + 1));
				b->refs.push_back(r);
			}
		blocks.push_back(std::move(b));
	}
}

NiVersion named_version(const std::string& v) {
	if (v == "OB")
		return NiVersion::getOB();
	if (v == "FO3")
		return NiVersion::getFO3();
	if (v == "SK")
		return NiVersion::getSK();
	if (v == "FO4")
		return NiVersion::getFO4();
	if (v == "FO76")
		return NiVersion::getFO76();
	if (v == "SF")
		return NiVersion::getSF();
	return NiVersion::getSSE();
}

int oracle_container(int, char**) {
	std::string line;
	while (std::getline(std::cin, line)) {
		if (line.empty())
			continue;
		Case c = parse_case(line);
		std::ostringstream out;
		if (c.op == "loadsave") {
			NifFile nif;
			int lrc;
			{
				std::ifstream f(c.get("in"), std::ios::binary);
				lrc = nif.Load(f);
			}
			out << "lrc=" << lrc << " hu=" << (nif.HasUnknown() ? 1 : 0);
			if (lrc == 0) {
				out << " hl=" << dump_hdr(nif.hdr);
				int serial = 0;
				for (auto& op : split(c.get("ops"), ';'))
					ed_apply(nif, op, serial++);
				if (c.geti("copy") == 1) {
					// the model is saved through a copy of the NifFile object (copy constructor)
					NifFile cp(nif);
					out << " | " << save_and_observe(cp, c.get("out"), c.get("opts"));
				}
				else
					out << " | " << save_and_observe(nif, c.get("out"), c.get("opts"));
				if (c.kv.count("twice")) {
					// a second save of the same object into <out>.2
					out << " | " << save_and_observe(nif, c.get("out") + ".2", c.get("opts"));
				}
			}
		}
		else if (c.op == "create") {
			NifFile nif;
			// reuse=<file>: the NifFile object held another (loaded) model before (Create must start from nothing)
			if (!c.get("reuse").empty()) {
				std::ifstream f(c.get("reuse"), std::ios::binary);
				nif.Load(f);
			}
			nif.Create(named_version(c.get("ver")));
			uint64_t x = static_cast<uint64_t>(c.geti("seed")) * 2654435761ULL + 12345;
			auto rnd = [&]() {
				x = (x * 1103515245ULL + 12345ULL) % 2147483648ULL;
				return static_cast<uint32_t>(x >> 8);
			};
			long ns = c.geti("shapes");
			for (long s = 0; s < ns; ++s) {
				uint32_t nv = 3 + rnd() % 6;
				std::vector<Vector3> v(nv), nrm(nv);
				std::vector<Vector2> uv(nv);
				for (uint32_t i = 0; i < nv; ++i) {
					v[i] = Vector3(static_cast<float>(rnd() % 17) - 8.0f, static_cast<float>(rnd() % 13), static_cast<float>(rnd() % 7));
					nrm[i] = Vector3(0.0f, 0.0f, 1.0f);
					uv[i] = Vector2(static_cast<float>(rnd() % 5) / 4.0f, static_cast<float>(rnd() % 5) / 4.0f);
				}
				std::vector<Triangle> t;
				uint32_t nt = 1 + rnd() % 5;
				for (uint32_t i = 0; i < nt; ++i)
					t.emplace_back(static_cast<uint16_t>(rnd() % nv), static_cast<uint16_t>(rnd() % nv), static_cast<uint16_t>(rnd() % nv));
				// the same name twice now and then: shared header string
				std::string name = "Shape" + std::to_string(rnd() % 3 == 0 ? 0 : s);
				nif.CreateShapeFromData(name, &v, &t, &uv, (rnd() % 2) ? &nrm : nullptr);
			}
			int serial = 0;
			for (auto& op : split(c.get("ops"), ';'))
				ed_apply(nif, op, serial++);
			out << "lrc=0 hu=0 hl=" << dump_hdr(nif.hdr) << " | " << save_and_observe(nif, c.get("out"), c.get("opts"));
		}
		else if (c.op == "uhsfile") {
			NifFile nif;
			int lrc;
			{
				std::ifstream f(c.get("in"), std::ios::binary);
				lrc = nif.Load(f);
			}
			out << "lrc=" << lrc;
			if (lrc == 0) {
				out << " file=" << static_cast<uint32_t>(nif.hdr.version.File()) << " " << dump_tab(nif.hdr) << " blocks=" << dump_refs(nif.blocks);
				nif.hdr.UpdateHeaderStrings(c.geti("hu") != 0);
				out << " | " << dump_tab(nif.hdr) << " blocks=" << dump_refs(nif.blocks);
			}
		}
		else if (c.op == "uhs" || c.op == "fill") {
			NiHeader hdr;
			std::vector<std::unique_ptr<NiObject>> blocks;
			hdr.version.SetFile(static_cast<NiFileVersion>(static_cast<uint32_t>(c.geti("file"))));
			hdr.SetBlockReference(&blocks);
			set_tab(hdr, c);
			set_blocks(blocks, c);
			if (c.op == "uhs")
				hdr.UpdateHeaderStrings(c.geti("hu") != 0);
			else
				hdr.FillStringRefs();
			out << dump_tab(hdr) << " blocks=" << dump_refs(blocks);
		}
		else if (c.op == "nistr") {
			NiHeader hdr;
			hdr.version.SetFile(V20_2_0_7);
			std::stringstream ss;
			NiOStream os(&ss, &hdr);
			NiString s(unhex(c.get("s")), c.geti("null") != 0);
			int w = static_cast<int>(c.geti("w"));
			s.Write(os, w);
			std::string bytes = ss.str();
			out << "bytes=" << hexs(bytes) << " mem=" << hexs(s.get()) << (s.get().empty() ? "-" : "");
			// read it back, with a sentinel behind it
			std::string tail = unhex(c.get("tail"));
			std::stringstream in(bytes + tail);
			NiIStream is(&in, &hdr);
			NiString r;
			r.Read(is, w);
			std::string rest;
			{
				std::ostringstream rs;
				rs << in.rdbuf();
				rest = rs.str();
			}
			out << " read=" << hexs(r.get()) << (r.get().empty() ? "-" : "") << " rest=" << hexs(rest) << (rest.empty() ? "-" : "");
		}
		else if (c.op == "sref") {
			NiHeader hdr;
			hdr.version.SetFile(static_cast<NiFileVersion>(static_cast<uint32_t>(c.geti("file"))));
			std::stringstream ss;
			NiOStream os(&ss, &hdr);
			NiStringRef s(unhex(c.get("s")));
			std::string i = c.get("idx");
			s.SetIndex(i == "x" ? NIF_NPOS : static_cast<uint32_t>(std::stoul(i)));
			s.Write(os);
			std::string bytes = ss.str();
			out << "bytes=" << hexs(bytes) << " mem=" << (s.GetIndex() == NIF_NPOS ? std::string("x") : std::to_string(s.GetIndex())) << ":" << hexs(s.get());
			std::stringstream in(bytes + unhex(c.get("tail")));
			NiIStream is(&in, &hdr);
			NiStringRef r;
			r.Read(is);
			std::string rest;
			{
				std::ostringstream rs;
				rs << in.rdbuf();
				rest = rs.str();
			}
			out << " read=" << (r.GetIndex() == NIF_NPOS ? std::string("x") : std::to_string(r.GetIndex())) << ":" << hexs(r.get()) << " rest=" << hexs(rest) << (rest.empty() ? "-" : "");
		}
		else if (c.op == "hput") {
			// synthetic header tables -> Put -> bytes -> Get
			NiHeader h;
			h.version.SetUser(static_cast<uint32_t>(c.geti("user")));
			h.version.SetStream(static_cast<uint32_t>(c.geti("stream")));
			h.version.SetFile(static_cast<NiFileVersion>(static_cast<uint32_t>(c.geti("file"))));
			h.endian = static_cast<NiEndian>(c.geti("endian"));
			h.numBlocks = static_cast<uint32_t>(c.geti("nblocks"));
			h.creator.get() = unhex(c.get("creator"));
			h.unkInt1 = static_cast<uint32_t>(c.geti("unk"));
			h.exportInfo1.get() = unhex(c.get("e1"));
			h.exportInfo2.get() = unhex(c.get("e2"));
			h.exportInfo3.get() = unhex(c.get("e3"));
			h.embedDataSize = static_cast<uint32_t>(c.geti("esz"));
			{
				std::string e = unhex(c.get("emb"));
				h.embedData.assign(e.begin(), e.end());
			}
			h.numBlockTypes = static_cast<uint16_t>(c.geti("nt"));
			for (auto& s : split(c.get("types"), ','))
				h.blockTypes.emplace_back(unhex(s == "-" ? "" : s));
			h.blockTypeIndices = get_list<uint16_t>(c, "tidx");
			h.blockSizes = get_list<uint32_t>(c, "sizes");
			h.numStrings = static_cast<uint32_t>(c.geti("ns"));
			h.maxStringLen = static_cast<uint32_t>(c.geti("maxlen"));
			for (auto& s : split(c.get("strings"), ','))
				h.strings.emplace_back(unhex(s == "-" ? "" : s));
			h.numGroups = static_cast<uint32_t>(c.geti("ng"));
			h.groupSizes = get_list<uint32_t>(c, "groups");
			std::stringstream ss;
			{
				NiOStream os(&ss, &h);
				h.Put(os);
			}
			std::string bytes = ss.str();
			out << "bytes=" << hexs(bytes) << " pos=" << static_cast<long long>(h.blockSizePos) << " mem=" << dump_hdr(h);
			std::string tail = unhex(c.get("tail"));
			std::stringstream in(bytes + tail);
			NiHeader g;
			NiIStream is(&in, &g);
			g.Get(is);
			bool good = static_cast<bool>(in);
			std::string rest;
			if (good) {
				std::ostringstream rs;
				rs << in.rdbuf();
				rest = rs.str();
			}
			out << " | valid=" << (g.IsValid() ? 1 : 0) << " good=" << (good ? 1 : 0) << " rest=" << hexs(rest) << (rest.empty() ? "-" : "") << " get=" << dump_hdr(g);
		}
		else
			out << "?";
		std::cout << "I=" << out.str() << "\n";
	}
	niVerifHooks().onStringRef = nullptr;
	niVerifHooks().onTransfer = nullptr;
	return 0;
}

Family reg_container("container", oracle_container);
} // namespace
