// nifly_oracle xform: calls the real transform / bounding-sphere code of Object3d.hpp, Object3d.cpp,
// Geometry.cpp on the numbers of a case line and prints what it computed (floats as %.9g, which
// round-trips a binary32). Parsing and printing only; every law is evaluated by tools/props/c20.py.
#include "oracle.hpp"
#include "NifFile.hpp"
#include "Object3d.hpp"
#include <cstdio>

using namespace nifly;

namespace nifly {
// defined (non-static) in src/Object3d.cpp; the header declares only a const& overload that has no definition
float CalcMedianOfFloats(std::vector<float>& data);
}

static std::vector<float> floats(const std::string& s, char sep = ',') {
	std::vector<float> out;
	for (auto& p : split(s, sep))
		out.push_back(std::strtof(p.c_str(), nullptr));
	return out;
}

static std::string fstr(float f) {
	char buf[64];
	std::snprintf(buf, sizeof buf, "%.9g", static_cast<double>(f));
	return buf;
}

static std::string join(const std::vector<float>& v) {
	std::string s;
	for (size_t i = 0; i < v.size(); ++i) {
		if (i)
			s += ",";
		s += fstr(v[i]);
	}
	return s;
}

static Vector3 vec_of(const std::vector<float>& f, size_t o = 0) {
	return f.size() >= o + 3 ? Vector3(f[o], f[o + 1], f[o + 2]) : Vector3();
}

static Matrix3 mat3_of(const std::vector<float>& f, size_t o = 0) {
	if (f.size() < o + 9)
		return Matrix3();
	return Matrix3(f[o], f[o + 1], f[o + 2], f[o + 3], f[o + 4], f[o + 5], f[o + 6], f[o + 7], f[o + 8]);
}

static MatTransform xform_of13(const std::vector<float>& f) {
	MatTransform t;
	if (f.size() < 13)
		return t;
	t.rotation = mat3_of(f, 0);
	t.translation = vec_of(f, 9);
	t.scale = f[12];
	return t;
}

static MatTransform get_xform(const Case& c, const std::string& sfx) {
	MatTransform t;
	t.rotation = mat3_of(floats(c.get("r" + sfx)));
	t.translation = vec_of(floats(c.get("t" + sfx)));
	auto s = floats(c.get("s" + sfx));
	t.scale = s.empty() ? 1.0f : s[0];
	return t;
}

static std::vector<float> l_vec(const Vector3& v) {
	return {v.x, v.y, v.z};
}
static std::vector<float> l_mat3(const Matrix3& m) {
	return {m[0][0], m[0][1], m[0][2], m[1][0], m[1][1], m[1][2], m[2][0], m[2][1], m[2][2]};
}
static std::vector<float> l_mat4(const Matrix4& m) {
	std::vector<float> v;
	for (int i = 0; i < 16; ++i)
		v.push_back(m[i]);
	return v;
}
static std::vector<float> l_xform(const MatTransform& t) {
	auto v = l_mat3(t.rotation);
	for (float f : l_vec(t.translation))
		v.push_back(f);
	v.push_back(t.scale);
	return v;
}

static std::vector<Vector3> points_of(const std::string& s) {
	std::vector<Vector3> pts;
	for (auto& p : split(s, ';'))
		pts.push_back(vec_of(floats(p, ':')));
	return pts;
}

static std::string str_points(const std::vector<Vector3>& pts) {
	std::string s;
	for (size_t i = 0; i < pts.size(); ++i) {
		if (i)
			s += ";";
		s += fstr(pts[i].x) + ":" + fstr(pts[i].y) + ":" + fstr(pts[i].z);
	}
	return s;
}

static std::string run_case(const Case& c) {
	if (c.op == "apply") {
		MatTransform t = get_xform(c, "");
		return join(l_vec(t.ApplyTransform(vec_of(floats(c.get("v"))))));
	}
	if (c.op == "compose") {
		MatTransform t1 = get_xform(c, "1"), t2 = get_xform(c, "2");
		Vector3 v = vec_of(floats(c.get("v")));
		MatTransform comp = t1.ComposeTransforms(t2);
		return join(l_xform(comp)) + "|" + join(l_vec(comp.ApplyTransform(v))) + "|"
			   + join(l_vec(t1.ApplyTransform(t2.ApplyTransform(v))));
	}
	if (c.op == "inverse") {
		MatTransform t = get_xform(c, "");
		Vector3 v = vec_of(floats(c.get("v")));
		MatTransform inv = t.InverseTransform();
		return join(l_xform(inv)) + "|" + join(l_xform(t.ComposeTransforms(inv))) + "|"
			   + join(l_xform(inv.ComposeTransforms(t))) + "|" + join(l_vec(inv.ApplyTransform(t.ApplyTransform(v)))) + "|"
			   + join(l_vec(t.ApplyTransform(inv.ApplyTransform(v))));
	}
	if (c.op == "invert3") {
		Matrix3 m = mat3_of(floats(c.get("m")));
		Matrix3 mi;
		if (!m.Invert(&mi))
			return "none";
		return join(l_mat3(mi)) + "|" + join(l_mat3(m * mi)) + "|" + join(l_mat3(mi * m));
	}
	if (c.op == "det3")
		return fstr(mat3_of(floats(c.get("m"))).Determinant());
	if (c.op == "tomatrix") {
		MatTransform t = get_xform(c, "");
		Vector3 v = vec_of(floats(c.get("v")));
		Matrix4 m = t.ToMatrix();
		return join(l_mat4(m)) + "|" + join(l_vec(m * v)) + "|" + join(l_vec(t.ApplyTransform(v)));
	}
	if (c.op == "inverse4") {
		auto f = floats(c.get("m"));
		Matrix4 m;
		for (int i = 0; i < 16 && i < static_cast<int>(f.size()); ++i)
			m[i] = f[i];
		float det = m.Det();
		if (det == 0.0f) {
			// Inverse() signals this case through c[0] = FLT_MAX
			Matrix4 r = m.Inverse();
			return fstr(det) + "|none" + (r[0] == std::numeric_limits<float>::max() ? "" : "?");
		}
		Matrix4 mi = m.Inverse();
		return fstr(det) + "|" + join(l_mat4(mi)) + "|" + join(l_mat4(m * mi)) + "|" + join(l_mat4(mi * m));
	}
	if (c.op == "rodrigues" || c.op == "rotvec") {
		Vector3 v = vec_of(floats(c.get("v")));
		Matrix3 m = RotVecToMat(v);
		Vector3 back = RotMatToVec(m);
		return join(l_mat3(m)) + "|" + join(l_vec(back)) + "|" + join(l_mat3(m * m.Transpose())) + "|" + fstr(m.Determinant());
	}
	if (c.op == "avg" || c.op == "median") {
		std::vector<MatTransform> ts;
		for (auto& s : split(c.get("ts"), ';'))
			ts.push_back(xform_of13(floats(s)));
		MatTransform r = c.op == "avg" ? CalcAverageMatTransform(ts) : CalcMedianMatTransform(ts);
		return join(l_xform(r));
	}
	if (c.op == "medf") {
		auto xs = floats(c.get("xs"));
		return fstr(CalcMedianOfFloats(xs));
	}
	if (c.op == "bsphere") {
		auto pts = points_of(c.get("pts"));
		BoundingSphere b(pts);
		return join(l_vec(b.center)) + "," + fstr(b.radius);
	}
	if (c.op == "bounds" || c.op == "bounds2") {
		// a shape created through the public API, its bounds recomputed by UpdateBounds();
		// bounds2: created with pts0 (bounds computed once), then the vertices are MOVED to pts (same count)
		// through SetVertsForShape and the bounds recomputed: they must enclose the new positions
		auto pts = points_of(c.get(c.op == "bounds2" ? "pts0" : "pts"));
		std::string ver = c.get("ver");
		NiVersion v = ver == "ob" ? NiVersion::getOB() : ver == "fo3" ? NiVersion::getFO3() : ver == "sk" ? NiVersion::getSK()
					  : ver == "fo4" ? NiVersion::getFO4() : NiVersion::getSSE();
		NifFile nif;
		nif.Create(v);
		std::vector<Triangle> tris;
		for (size_t i = 2; i < pts.size(); ++i)
			tris.emplace_back(static_cast<uint16_t>(0), static_cast<uint16_t>(i - 1), static_cast<uint16_t>(i));
		std::vector<Vector2> uvs(pts.size());
		NiShape* shape = nif.CreateShapeFromData("s", &pts, &tris, &uvs, nullptr);
		if (!shape)
			return "noshape";
		// make the stored bounds wrong first, so that only UpdateBounds can put them right
		shape->SetBounds(BoundingSphere(Vector3(1e6f, 1e6f, 1e6f), 0.0f));
		shape->UpdateBounds();
		if (c.op == "bounds2") {
			auto moved = points_of(c.get("pts"));
			if (moved.size() != pts.size())
				return "badcase";
			nif.SetVertsForShape(shape, moved);
			shape->SetBounds(BoundingSphere(Vector3(1e6f, 1e6f, 1e6f), 0.0f));
			shape->UpdateBounds();
		}
		BoundingSphere b = shape->GetBounds();
		std::vector<Vector3> back;
		nif.GetVertsForShape(shape, back);
		return join(l_vec(b.center)) + "," + fstr(b.radius) + "|" + str_points(back);
	}
	return "?";
}

static int oracle_xform(int, char**) {
	std::string line;
	while (std::getline(std::cin, line)) {
		if (line.empty())
			continue;
		std::cout << "I=" << run_case(parse_case(line)) << "\n";
	}
	return 0;
}

static Family reg("xform", oracle_xform);
