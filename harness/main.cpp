#include "oracle.hpp"
#include <cstring>

int main(int argc, char** argv) {
	if (argc < 2) {
		std::cerr << "usage: nifly_oracle <family> [args] < cases\n";
		return 2;
	}
	std::ios::sync_with_stdio(false);
	if (!std::strcmp(argv[1], "util"))
		return oracle_util(argc - 1, argv + 1);
	std::cerr << "unknown family " << argv[1] << "\n";
	return 2;
}
