#include "oracle.hpp"

std::map<std::string, FamilyFn>& families() {
	static std::map<std::string, FamilyFn> m;
	return m;
}

int main(int argc, char** argv) {
	if (argc < 2) {
		std::cerr << "usage: nifly_oracle <family> [args] < cases\n";
		return 2;
	}
	std::ios::sync_with_stdio(false);
	auto it = families().find(argv[1]);
	if (it == families().end()) {
		std::cerr << "unknown family " << argv[1] << "\n";
		return 2;
	}
	return it->second(argc - 1, argv + 1);
}
